"""C06 — models are immutable values: no API call changes its input; equal means equal; results are well formed.

Model / theorems: coq/theories/C06 (Model.v effect IR + analysis, Proofs.v soundness; Wf.v constructors and eq/hash
term tables, ProofsWf.v; Properties.v, Refuted.v, Examples.v, Check.v).
Ties:
  * T-effects  (c06_effects.py): the effect IR of every function of pharmpy.modeling + nonmem/update.py is REGENERATED
    from the current source on every run; the summaries are recomputed inside Coq and the obligations
    `summaries_consistent`, `all_public_functions_ok` and the instantiated theorem `public_functions_preserve_input`
    are re-proved in build/gen/C06/Obligation.v.
  * T-eqhash   (c06_eqhash.py): the __eq__/__hash__ term tables of the model classes are regenerated and checked
    (`cls_consistent`) inside Coq; pairs of real objects validate the tables.
  * correspondence of the constructor models (Parameter.create/replace, Parameters.create, RandomVariables.create/+,
    Model._canonicalize_statements) with the real code on generated inputs, compared inside Coq (C06.Check.verdict).
  * behavioural oracle (c06_oracle.py, search/validation part): deep snapshot of every argument before/after every
    public call; every returned model goes through the Coq well-formedness predicate."""
import json
import math
import os
import re
import shutil
from concurrent.futures import ProcessPoolExecutor
from fractions import Fraction as F
from pathlib import Path

from harness.lib import coqterm as ct
from harness.lib import core
from harness.lib.core import BUILD, REPO, THEORIES, VERIF, source_sha
from harness.props import c06_effects, c06_eqhash

LEVEL = 'proof'
IMPORTS = 'Base.PyData C06.Wf C06.Check'

TAGS = {
    1: 'Parameter.create/replace result differs from the model', 2: 'Parameters.create acceptance differs from the model',
    3: 'RandomVariables.create / + result differs from the model', 4: 'Model.create acceptance of statements differs from the model',
    5: 'a == b is not the conjunction of the compared terms of the translated __eq__',
    6: 'hash(a) == hash(b) is not the conjunction of the hashed terms of the translated __hash__',
    9: 'malformed eq/hash case',
    11: 'accepted parameter has init outside its bounds', 12: 'accepted Parameters with duplicate names',
    13: 'RandomVariables object with duplicate names', 14: 'accepted statements use a symbol before it is defined',
    15: 'a == b but hash(a) != hash(b)', 16: 'returned model: parameter init outside bounds',
    17: 'returned model: duplicate parameter / random variable names', 18: 'returned model: statement uses an undefined symbol',
    19: 'returned model: code cannot be produced', 21: 'an argument was modified by the call',
    23: 'an object of an Immutable class returned by the API is not hashable (a field was replaced after construction)',
    22: 'code generation (update_source) modified the model it was called on',
}
ORACLE_TAGS = {11, 12, 13, 14, 15, 16, 17, 18, 19, 21, 22, 23}
CORR_TAGS = {1, 2, 3, 4, 5, 6, 9}

# functions whose effect program the checker rejects because the CODE writes into model.dataset  -> finding id
# (none today: add_admid / add_cmt / nonmem.update._add_cmt were repaired in /repo 27ca82d and are ordinary checked
# functions now — a re-introduced in-place write makes them newly flagged)
EFFECT_FINDINGS = {}
# functions the checker cannot accept because of the coarseness of the ANALYSIS (reviewed by hand; the theorem says
# nothing about them, the behavioural oracle still watches them).  Value: the write sites (function, description) that
# may be reported for them — any other site makes the function count as newly flagged.
# (empty since the analysis separates a value from what its `.dataset` denotes and takes a constructed instance to be
# what __init__ stored into it: add_time_after_dose, get_concentration_parameters_from_data and check_dataset are accepted)
INCONCLUSIVE = {
    # tools layer (roots added with the tools / workflow extension)
    ('pharmpy.tools.amd.run', 'run_amd'): {
        'why': 'container imprecision: `orig_dataset = model.dataset` is handed on as a tool option, the metadata dict created '
               'by _create_metadata_tool keeps every option, and its later update `tool_metadata[\'stats\'][\'end_time\'] = ..` '
               '/ ctx.store_metadata(..) is a write into a container that HOLDS the frame (not into the frame); every other '
               'function of tools/amd is accepted; run_amd has no esttool option, so it cannot be exercised without an external program',
        'sites': {('_update_metadata', "store into tool_metadata['stats']['end_time']"),
                  ('run_tool_with_name', 'unknown method .store_metadata(...)')}},
}
# returned-model defects that are listed: (function, oracle tag) -> finding id
RETURNED_FINDINGS = {('drop_columns', 18): 'C06-DROP-COLUMNS-UNDEFINED',
                     ('tools.run_ruvsearch', 18): 'C06-RUVSEARCH-STORED-MODEL-UNDEFINED-SYMBOL'}
# (CompartmentalSystem was repaired in /repo 698ece8: its table must be consistent now)
# (ColumnInfo repaired in /repo d301152, frozenmapping in e8b6237, Model in 15b36e3: EVERY table must be consistent now)
EQHASH_FINDINGS = {}
EQHASH_EXPECTED = {}


# ============================================================================================ Coq printers
def xnum(v):
    if v is None:
        raise ValueError
    if isinstance(v, str):
        if v == 'nan':
            return 'XNaN'
        if v == 'inf':
            return 'XPosInf'
        if v == '-inf':
            return 'XNegInf'
        v = float.fromhex(v) if v.startswith(('0x', '-0x')) else float(v)
    v = float(v)
    if math.isnan(v):
        return 'XNaN'
    if math.isinf(v):
        return 'XPosInf' if v > 0 else 'XNegInf'
    return f'(XFin {ct.q(F(v))})'


def oxnum(v):
    return 'None' if v is None else f'(Some {xnum(v)})'


def pyfloat(v):
    if isinstance(v, str):
        return float(v) if not v.startswith(('0x', '-0x')) else float.fromhex(v)
    return v


def param_term(names, name, init, lower, upper, fix):
    return f"(mkparam {names.p(name)} {xnum(init)} {xnum(lower)} {xnum(upper)} {ct.boolean(fix)})"


def idlist(names, xs):
    return ct.lst([names.p(x) for x in xs])


def fenc(x):
    x = float(x)
    if math.isnan(x):
        return 'nan'
    if math.isinf(x):
        return 'inf' if x > 0 else '-inf'
    return x.hex()


# ============================================================================================ T-effects
def coqc_gen(path, gendir):
    return core.coqc_file(path, timeout=900, extra_q=[(gendir, 'C06Gen')])


def parse_rows(out):
    return core.parse_nested_nat_lists(out)


def effects_part(ctx, src=None, extra_sources=None, label='gen'):
    """regenerate the effect IR, analyse inside Coq, classify the flagged functions, prove the obligations"""
    gendir = ctx.rundir / label
    gendir.mkdir(parents=True, exist_ok=True)
    cov = ctx.coverage.setdefault('effects', {})
    try:
        text, meta = c06_effects.generate(src or (REPO / 'src'), extra_sources)
    except c06_effects.Refused as e:
        ctx.broken.append(f'TRANSLATOR-REFUSED (T-effects): {e}')
        return None
    (gendir / 'Effects.v').write_text(text)
    (gendir / 'effects_meta.json').write_text(json.dumps(meta))
    rc, out = coqc_gen(gendir / 'Effects.v', gendir)
    if rc != 0:
        ctx.broken.append('generated Effects.v does not compile: ' + out[-500:])
        return None
    nfun = len(meta['functions'])
    (gendir / 'Report.v').write_text(f'''From Coq Require Import List Bool Arith NArith.
From PV Require Import C06.Model.
From C06Gen Require Import Effects.
Import ListNotations.
Definition iters := 8%nat.
Definition summaries : list summary := Eval vm_compute in solve_gs iters effect_programs solve_order 40 (bottom effect_programs).
Definition row (sm : summary) : list nat :=
  if fn_clean sm then [] else 1%nat :: flat_map (fun r => [fst (fst r); snd (fst r); N.to_nat (snd r)]) (offending sm).
Eval vm_compute in ([if consistent iters effect_programs summaries then 1%nat else 0%nat; length summaries] :: map row summaries).
''')
    rc, out = coqc_gen(gendir / 'Report.v', gendir)
    if rc != 0:
        ctx.broken.append('effects Report.v failed: ' + out[-500:])
        return None
    rows = parse_rows(out)
    head, rows = rows[0], rows[1:]
    if head[0] != 1 or head[1] != nfun or len(rows) != nfun:
        ctx.broken.append(f'effect summaries are not a post-fixpoint of the analysis (consistent={head[0]}, {head[1]}/{nfun})')
        return None
    F_, W = meta['functions'], meta['writes']
    public = {i: n for n, i in meta['public']}
    for i in meta['codegen']:
        public.setdefault(i, 'nonmem.update.' + F_[i]['qualname'])     # roots = public functions + code generation helpers
    for i in meta.get('tools', []):
        public.setdefault(i, F_[i]['module'].replace('pharmpy.', '') + '.' + F_[i]['qualname'])   # + tools / workflow helpers
    flagged = {}
    for i, r in enumerate(rows):
        if r:
            recs = [(r[j], r[j + 1], r[j + 2]) for j in range(1, len(r), 3)]
            flagged[i] = recs

    def site(k):
        w = W[k]
        return (w['function'], w['what'])

    exempt, newly, known_fn, inconclusive = [], [], {}, []
    for i, recs in sorted(flagged.items()):
        key = (F_[i]['module'], F_[i]['qualname'])
        sites = {site(k) for (_, _, k) in recs}
        input_sites = {site(k) for (c, o, k) in recs if o % 2 == 0}
        if key in EFFECT_FINDINGS and sites <= EFFECT_FINDINGS[key][1]:
            known_fn[key] = sorted(input_sites)
            if i in public:
                exempt.append(i)
            continue
        if i not in public:
            continue
        if key in INCONCLUSIVE and sites <= INCONCLUSIVE[key]['sites']:
            inconclusive.append({'function': public[i], 'why': INCONCLUSIVE[key]['why']})
            exempt.append(i)
            continue
        newly.append({'function': public[i], 'id': i, 'module': key[0],
                      'sites': [{'function': W[k]['function'], 'module': W[k]['module'], 'line': W[k]['line'],
                                 'what': W[k]['what'], 'class': c,
                                 'origin': ('input dataset (untracked owner)' if o == 0 else
                                            f'dataset of argument {(o - 2) // 2}' if o % 2 == 0 else f'argument {(o - 1) // 2}')}
                                for (c, o, k) in recs]})
        exempt.append(i)
    # findings whose function is no longer flagged
    for key, (fid, _) in EFFECT_FINDINGS.items():
        if key not in known_fn and not any(n['module'] == key[0] and n['function'].endswith(key[1]) for n in newly):
            ctx.notes.append(f'effect checker accepts {key[1]} now ({fid} not reproduced statically)')
    # ---- the obligations
    pub_ids = [i for _, i in meta['public']]
    (gendir / 'Obligation.v').write_text(f'''(* GENERATED: obligations over the regenerated effect IR *)
From Coq Require Import List Bool Arith NArith Lia.
From PV Require Import C06.Model C06.Proofs C06.Properties.
From C06Gen Require Import Effects Report.
Import ListNotations.
(* iters and summaries (the solved table, a closed normal form) come from Report.v *)
Lemma summaries_consistent : consistent iters effect_programs summaries = true.
Proof. vm_compute. reflexivity. Qed.
(* public functions of pharmpy.modeling the checker does not accept: open findings + analysis-inconclusive ones *)
Definition exempt : list N := {c06_effects.vl(exempt)}%N.
Definition checked_public : list N :=
  filter (fun f => negb (existsb (N.eqb f) exempt)) (public_functions ++ codegen_functions ++ tools_functions).
Lemma all_public_functions_ok :
  forallb (fun f => fn_clean (nth (N.to_nat f) summaries dsum)) checked_public = true.
Proof. vm_compute. reflexivity. Qed.
Lemma exempt_functions_are_flagged :
  forallb (fun f => negb (fn_clean (nth (N.to_nat f) summaries dsum))) exempt = true.
Proof. vm_compute. reflexivity. Qed.
(* the frame theorem instantiated at the current source: every checked public function, however it is executed
   (any trace, any depth, returning or raising), leaves the frame behind model.dataset untouched *)
Theorem public_functions_preserve_input :
  forall (frame : Type) (mutate : N -> frame -> frame) (dflt : frame) (f : fname),
    In f checked_public ->
    forall (n : nat) (s : state frame) (b : bool) (s' : state frame),
      entry frame (arity (nth (N.to_nat f) effect_programs dfdef)) s ->
      (forall i, In 0%nat (st s (vparam i)) -> Nat.odd i = true) -> (0 < nx s)%nat ->
      exec frame mutate dflt (fun g => nth (N.to_nat g) effect_programs dfdef) n
           (body (nth (N.to_nat f) effect_programs dfdef)) s b s' ->
      hp s' 0%nat = hp s 0%nat.
Proof.
  intros frame mutate dflt f Hf n s b s' HE HP Hn EX.
  pose proof all_public_functions_ok as HA. rewrite forallb_forall in HA. specialize (HA f Hf).
  unfold fn_clean in HA. apply andb_true_iff in HA. destruct HA as [HA _].
  apply andb_true_iff in HA. destruct HA as [HI HD].
  exact (argument_datasets_preserved frame mutate dflt iters effect_programs summaries summaries_consistent
           f n s b s' HI HD HE HP Hn EX).
Qed.
Print Assumptions public_functions_preserve_input.
Eval vm_compute in [[length checked_public; length exempt; length public_functions; length codegen_functions; length tools_functions]].
''')
    rc, out = coqc_gen(gendir / 'Obligation.v', gendir)
    ctx.obligations += 4
    if rc != 0:
        ctx.broken.append('regenerated obligation all_public_functions_ok / public_functions_preserve_input fails: ' + out[-600:])
    elif 'Closed under the global context' not in out:
        ctx.broken.append('public_functions_preserve_input is not closed under the global context: ' + out[-400:])
    else:
        ctx.discharged += 4
        counts = parse_rows(out)[0]
        cov['checked_public_functions'] = counts[0]
    try:
        pub = BUILD / 'gen' / 'C06'
        pub.mkdir(parents=True, exist_ok=True)
        for fn in ('Effects.v', 'Obligation.v', 'effects_meta.json'):
            shutil.copy(gendir / fn, pub / fn)
    except OSError:
        pass
    cov.update({
        'functions_translated': nfun, 'public_entries': len(pub_ids), 'codegen_helpers': len(meta['codegen']),
        'tools_workflow_roots': len(meta.get('tools', [])), 'not_translated': meta.get('soft_refused', []), 'write_sites': len(W),
        'flagged_public': len([i for i in flagged if i in public]),
        'open_finding_functions': sorted(k[1] for k in known_fn), 'analysis_inconclusive': inconclusive,
        'newly_flagged': newly, 'trusted_core_callees': len(meta['trusted_core']), 'source_sha': meta['sha'],
        'unresolved_public': meta['unresolved_public'],
    })
    return {'meta': meta, 'flagged': flagged, 'newly': newly, 'known_fn': known_fn, 'public': public}


# ============================================================================================ T-eqhash
def eqhash_tables(ctx, extra_sources=None):
    tabs, refused = c06_eqhash.tables(REPO / 'src', extra_sources)
    for r in refused:
        ctx.broken.append('TRANSLATOR-REFUSED (T-eqhash): ' + r)
    try:
        tabs += c06_eqhash.mapping_table(REPO / 'src', extra_sources)
    except c06_eqhash.Refused as e:
        ctx.broken.append(f'TRANSLATOR-REFUSED (T-eqhash, frozenmapping): {e}')
    return tabs


def cache_part(ctx, extra_sources=None):
    """regenerated obligation: every store into a cached-hash attribute is of an allowed kind"""
    sites = c06_eqhash.cache_sites(REPO / 'src', extra_sources)
    kinds = {'wrapper': 'KWrapper', 'lazy': 'KLazy', 'init_none': 'KInitNone', 'init_share': 'KInitShare', 'carry': 'KCarry'}
    ctx.obligations += 1
    if not sites:
        ctx.broken.append('T-cache: no store into a _hash attribute found (cache_method / frozenmapping changed shape)')
        return sites
    res = ctx.run_cases('cache-sites', IMPORTS, 'ckind', [kinds[s_['kind']] for s_ in sites],
                        '(fun k => if ckind_allowed k then [] else [1%nat])', shard=100)
    bad = [s_['site'] for s_, r in zip(sites, res) if r]
    ctx.coverage.setdefault('eqhash', {})['cache_sites'] = [s_['kind'] for s_ in sites]
    if bad:
        ctx.broken.append('cached hash carried to an object with other content (cache obligation fails): ' + '; '.join(bad))
    else:
        ctx.discharged += 1
    return sites


def class_term(tab, names):
    def tl(ts):
        return ct.lst([f"({names.p(f)}, {h}%nat)" for f, h in ts])
    return f"(mkclass {tl(tab['eq'])} {tl(tab['hash'])})"


# stores into an existing instance of an Immutable class that are listed as findings: site text -> finding id
STORE_FINDINGS = {'Statements.direct_dependencies': 'C06-DIRECT-DEPENDENCIES-NOT-A-VALUE'}


def immutable_part(ctx, extra_sources=None):
    """regenerated obligation: no store into an instance of an Immutable model class after its construction"""
    sites, classes = c06_eqhash.store_sites(REPO / 'src', extra_sources)
    kinds = {'init': 'SInit', 'cache': 'SCache', 'singleton': 'SSingleton', 'other': 'SOther'}
    ctx.obligations += 1
    res = ctx.run_cases('store-sites', IMPORTS, 'skind', [kinds[s_['kind']] for s_ in sites],
                        '(fun k => if skind_allowed k then [] else [1%nat])', shard=400)
    cov = ctx.coverage.setdefault('immutability', {})
    cov['classes'] = len(classes)
    cov['store_sites'] = len(sites)
    bad = []
    for s_, r in zip(sites, res):
        if r:
            fid = next((f for key, f in STORE_FINDINGS.items() if f':{key}:' in s_['site']), None)
            if fid and ctx.open_finding(fid):
                cov.setdefault('listed_sites', []).append(s_['site'])
            else:
                bad.append(s_['site'])
    if bad:
        ctx.broken.append('an instance of an Immutable class is modified after construction (immutability obligation fails): '
                          + '; '.join(bad))
    else:
        ctx.discharged += 1
    for key, fid in STORE_FINDINGS.items():
        if ctx.open_finding(fid) and not any(f':{key}:' in s_['site'] and s_['kind'] == 'other' for s_ in sites):
            ctx.notes.append(f'finding_not_reproduced {fid}: no store after construction in {key} any more')
    return sites


def eqhash_part(ctx, tabs):
    """class-level obligation: every hashed term is compared (except the listed open findings)"""
    names = ct.Names()
    terms = [class_term(t, names) for t in tabs]
    res = ctx.run_cases('eqhash-classes', IMPORTS, 'eqclass', terms,
                        '(fun c => map (fun t => (Pos.to_nat (fst t) * 4 + snd t)%nat) (hashed_not_compared c))', shard=100)
    cov = ctx.coverage.setdefault('eqhash', {})
    cov['classes'] = len(tabs)
    bad = {}
    for t, r in zip(tabs, res):
        got = sorted((names.name(c // 4), c % 4) for c in r)
        if got:
            bad[t['class']] = got
    cov['hashed_not_compared'] = {k: [list(x) for x in v] for k, v in bad.items()}
    ctx.obligations += 1
    okall = True
    for cls, got in bad.items():
        fid = EQHASH_FINDINGS.get(cls)
        if fid and ctx.open_finding(fid) and got == sorted(EQHASH_EXPECTED[cls]):
            continue
        okall = False
        ctx.broken.append(f'class {cls}: __hash__ hashes {got} which __eq__ does not compare (eq/hash law obligation fails)')
    for cls, fid in EQHASH_FINDINGS.items():
        if cls not in bad and ctx.open_finding(fid):
            ctx.notes.append(f'finding_not_reproduced {fid}: the term tables of {cls} are consistent now')
    if okall:
        ctx.discharged += 1
    return bad


# ---- pairs of real objects validating the tables
def eqhash_builders():
    import networkx as nx
    import pandas as pd
    from pharmpy.basic import Expr
    from pharmpy.internals.df import hash_df_runtime
    from pharmpy.model import (Assignment, Bolus, ColumnInfo, Compartment, CompartmentalSystem,
                               CompartmentalSystemBuilder, DataInfo, EstimationStep, Infusion,
                               JointNormalDistribution, NormalDistribution, Parameter, Parameters,
                               RandomVariables, Statements, VariabilityLevel, output)

    def cs(rate='CL/V', name='CENTRAL', amt='AMT', t='t'):
        cb = CompartmentalSystemBuilder()
        c = Compartment.create(name, doses=(Bolus.create(amt),))
        cb.add_compartment(c)
        cb.add_flow(c, output, Expr(rate))
        return CompartmentalSystem(cb, t=Expr.symbol(t))

    B = {
        'Parameter': lambda s: Parameter.create(s.get('name', 'x'), s.get('init', 1.0), s.get('lower'), s.get('upper'), s.get('fix', False)),
        'Parameters': lambda s: Parameters.create([Parameter.create(n, i) for n, i in s.get('ps', [['a', 1.0]])]),
        'Assignment': lambda s: Assignment.create(s.get('sym', 'Y'), Expr(s.get('expr', 'A+B'))),
        'Bolus': lambda s: Bolus.create(s.get('amt', 'AMT'), admid=s.get('admid', 1)),
        'Infusion': lambda s: Infusion.create(s.get('amt', 'AMT'), admid=s.get('admid', 1), rate=s.get('rate', 'R1')),
        'Compartment': lambda s: Compartment.create(s.get('name', 'C'), doses=(Bolus.create(s.get('amt', 'AMT')),),
                                                    lag_time=Expr(s.get('lag', '0'))),
        'CompartmentalSystem': lambda s: cs(s.get('rate', 'CL/V'), s.get('name', 'CENTRAL'), s.get('amt', 'AMT'), s.get('t', 't')),
        'Statements': lambda s: Statements([Assignment.create(a, Expr(b)) for a, b in s.get('stmts', [['A', 'X']])]
                                           + ([cs(s['ode'])] if s.get('ode') else [])),
        'NormalDistribution': lambda s: NormalDistribution.create(s.get('name', 'ETA'), s.get('level', 'iiv'), 0, s.get('var', 'OM')),
        'JointNormalDistribution': lambda s: JointNormalDistribution.create(
            s.get('names', ['E1', 'E2']), 'iiv', [0, 0], [[s.get('v1', 'O1'), 'O2'], ['O2', 'O3']]),
        'RandomVariables': lambda s: RandomVariables.create([NormalDistribution.create(n, 'iiv', 0, v) for n, v in s.get('ds', [['E', 'O']])]),
        'ColumnInfo': lambda s: ColumnInfo.create(s.get('name', 'WGT'), type=s.get('type', 'unknown'), descriptor=s.get('descriptor'),
                                                  drop=s.get('drop', False), categories=s.get('categories')),
        'DataInfo': lambda s: DataInfo.create([ColumnInfo.create(n, descriptor=d) for n, d in s.get('cols', [['ID', None]])],
                                              path=s.get('path')),
        'VariabilityLevel': lambda s: VariabilityLevel.create(s.get('name', 'IIV'), reference=s.get('ref', True), group=s.get('group')),
        'EstimationStep': lambda s: EstimationStep.create(s.get('method', 'FOCE'), interaction=s.get('inter', False),
                                                          predictions=tuple(s.get('pred', ())), maximum_evaluations=s.get('maxeval')),
    }

    def model(s):
        import pharmpy.modeling as pm
        m = pm.load_example_model('pheno')
        for step in s.get('steps', []):
            if step == 'head':
                m = m.replace(dataset=m.dataset.iloc[:20].copy())
            elif step == 'iie':
                m = m.replace(initial_individual_estimates=pd.DataFrame({'ETA_CL': [0.1], 'ETA_VC': [0.2]}))
            elif step == 'name':
                m = m.replace(name='other', description='x')
            else:
                m = getattr(pm, step)(m)
        return m
    B['Model'] = model
    from pharmpy.internals.immutable import frozenmapping
    B['frozenmapping'] = lambda s: frozenmapping({k: v for k, v in s.get('items', [['x', 1]])})
    fns = {('CompartmentalSystem', 'g'): nx.to_dict_of_dicts,
           ('Model', 'dataset'): lambda d: hash_df_runtime(d) if d is not None else None,
           ('frozenmapping', 'mapping', 2): lambda d: frozenset(d.items()),       # the items, unordered
           ('frozenmapping', 'mapping', 3): lambda d: tuple(d.items())}           # the items, in insertion order
    return B, fns


def term_bits(cls, tab, a, b, fns):
    """per-term observations on a pair of real objects: equality of the compared terms, hash-equality of the hashed"""
    klass = type(a)

    def value(o, field):
        if field == 'identity':
            return id(o)
        for nm in ('_' + field, field):
            if hasattr(o, nm):
                return getattr(o, nm)
        raise AttributeError(field)

    def eqbit(field, how):
        if field == 'super':
            return bool(super(klass, a).__eq__(b))
        va, vb = value(a, field), value(b, field)
        if (cls, field, how) in fns:
            return bool(fns[(cls, field, how)](va) == fns[(cls, field, how)](vb))
        if how == 1:
            if (cls, field) in fns:
                return bool(fns[(cls, field)](va) == fns[(cls, field)](vb))
            if callable(va) and callable(vb):       # compared through a method: self._m() == other._m()
                return bool(va() == vb())
            if va is None or vb is None:
                return va is None and vb is None
            return bool(va.equals(vb))
        r = va == vb
        return bool(r)

    def hashbit(field, how):
        if field == 'super':
            return super(klass, a).__hash__() == super(klass, b).__hash__()
        va, vb = value(a, field), value(b, field)
        if (cls, field, how) in fns:
            va, vb = fns[(cls, field, how)](va), fns[(cls, field, how)](vb)
        elif how == 1 and (cls, field) in fns:
            va, vb = fns[(cls, field)](va), fns[(cls, field)](vb)
        try:
            return hash(va) == hash(vb)
        except TypeError:
            if how >= 1:
                # the value of the function is not hashable itself (a dict, ...): a content hash of it agrees
                # exactly when the contents are equal
                return bool(va == vb)
            return False
    return [eqbit(f, h) for f, h in tab['eq']], [hashbit(f, h) for f, h in tab['hash']]


EQHASH_SPECS = {
    'Parameter': [{}, {'name': 'y'}, {'init': 2.0}, {'lower': 0.0}, {'upper': 5.0}, {'fix': True}, {'init': 0.0}, {'init': -0.0}],
    'Parameters': [{}, {'ps': [['a', 2.0]]}, {'ps': [['a', 1.0], ['b', 1.0]]}, {'ps': [['b', 1.0]]}],
    'Assignment': [{}, {'sym': 'Z'}, {'expr': 'B+A'}, {'expr': 'A*B'}],
    'Bolus': [{}, {'amt': 'D'}, {'admid': 2}],
    'Infusion': [{}, {'amt': 'D'}, {'admid': 2}, {'rate': 'R2'}],
    'Compartment': [{}, {'name': 'D'}, {'amt': 'D'}, {'lag': 'L'}],
    'CompartmentalSystem': [{}, {}, {'rate': 'K'}, {'name': 'X'}, {'amt': 'D'}],
    'Statements': [{}, {'stmts': [['A', 'Y']]}, {'stmts': [['A', 'X'], ['B', 'A']]}, {'ode': 'K'}, {'ode': 'K'}],
    'NormalDistribution': [{}, {'name': 'E2'}, {'level': 'iov'}, {'var': 'O2'}],
    'JointNormalDistribution': [{}, {'names': ['E1', 'E3']}, {'v1': 'OX'}],
    'RandomVariables': [{}, {'ds': [['E', 'O2']]}, {'ds': [['E', 'O'], ['F', 'P']]}],
    'ColumnInfo': [{}, {'descriptor': 'body weight'}, {'name': 'AGE'}, {'type': 'covariate'}, {'drop': True},
                   {'categories': [1, 2]}, {'descriptor': 'age'}],
    'DataInfo': [{}, {'cols': [['ID', None], ['WGT', None]]}, {'cols': [['ID', 'subject identifier']]}, {'path': 'x.csv'}],
    'VariabilityLevel': [{}, {'name': 'IOV'}, {'ref': False}, {'group': 'ID'}],
    'EstimationStep': [{}, {'method': 'FO'}, {'inter': True}, {'pred': ['PRED']}, {'maxeval': 99}],
    'frozenmapping': [{}, {'items': [['x', 1], ['y', 2]]}, {'items': [['y', 2], ['x', 1]]}, {'items': [['x', 2]]},
                      {'items': [['x', 1], ['y', 3]]}],
    'Model': [{}, {}, {'steps': ['name']}, {'steps': ['head']}, {'steps': ['iie']}, {'steps': ['set_first_order_absorption']}],
}


def eqhash_pair_case(tab, cls, sa, sb, B, fns, names, objs=None):
    a, b = objs if objs is not None else (B[cls](sa), B[cls](sb))
    try:
        obs_eq = bool(a == b)
    except Exception:
        return None
    info = {'hash_error': None}
    try:
        obs_hash = hash(a) == hash(b)
    except TypeError as e:
        obs_hash = False
        info['hash_error'] = str(e)
    eqbits, hashbits = term_bits(cls, tab, a, b, fns)
    term = (f"(CEqHash {class_term(tab, names)} {ct.lst([ct.boolean(x) for x in eqbits])} "
            f"{ct.lst([ct.boolean(x) for x in hashbits])} {ct.boolean(obs_eq)} {ct.boolean(obs_hash)})")
    return term, info


# ============================================================================================ constructor cases
NUMPOOL = [None, 'nan', 'inf', '-inf', 0.0, -0.0, 1.0, -1.0, 0.5, 2.0, 10.0, 1e-3, 0.1]


def gen_spec(rng):
    k = rng.choice(['create', 'create', 'create', 'replace', 'replace', 'names', 'set_inits', 'set_inits', 'set_fix', 'set_fix', 'rvs_seq', 'rvs_single', 'rvs_add',
                    'canon', 'canon', 'canon', 'canon'])
    if k == 'create':
        style = rng.random()
        if style < 0.6:      # mostly valid: sorted triple
            vals = sorted(rng.choice([0.0, 0.5, 1.0, 2.0, 10.0, -1.0, 0.1]) for _ in range(3))
            lower, init, upper = vals
            if rng.random() < 0.3:
                lower = None
            if rng.random() < 0.3:
                upper = None
            if rng.random() < 0.1:
                lower = '-inf'
            if rng.random() < 0.1:
                upper = 'inf'
        else:
            init = rng.choice([x for x in NUMPOOL if x is not None])
            lower, upper = rng.choice(NUMPOOL), rng.choice(NUMPOOL)
        return {'k': 'create', 'name': rng.choice(['TVCL', 'x', 'OM']), 'init': enc(init), 'lower': enc(lower),
                'upper': enc(upper), 'fix': rng.random() < 0.3}
    if k == 'replace':
        vals = sorted(rng.choice([0.0, 0.5, 1.0, 2.0, 10.0, -1.0]) for _ in range(3))
        base = {'name': 'p', 'init': enc(vals[1]), 'lower': enc(vals[0] if rng.random() < 0.7 else None),
                'upper': enc(vals[2] if rng.random() < 0.7 else None), 'fix': False}
        kw = {}
        for key in ('init', 'lower', 'upper'):
            if rng.random() < 0.45:
                kw[key] = enc(rng.choice([x for x in NUMPOOL if x is not None]))
        if rng.random() < 0.3:
            kw['fix'] = rng.random() < 0.5
        return {'k': 'replace', 'base': base, 'kw': kw}
    pool = ['A', 'B', 'C', 'D', 'E']
    if k == 'set_fix':
        ps = []
        for nm in rng.sample(pool, rng.choice([1, 2, 3, 4])):
            vals = sorted(rng.choice([0.0, 0.5, 1.0, 2.0, 10.0, -1.0]) for _ in range(3))
            lo, up = (vals[0] if rng.random() < 0.6 else None), (vals[2] if rng.random() < 0.6 else None)
            init, raw = vals[1], False
            if rng.random() < 0.15:          # built with the unchecked constructor, init outside its bounds
                init, lo, up, raw = vals[2] + 1.0, vals[0], vals[2], True
            ps.append([nm, enc(init), enc(lo), enc(up), rng.random() < 0.4, raw])
        fx = {nm: rng.random() < 0.5 for nm in rng.sample(pool, rng.choice([0, 1, 2, 3, 5]))}
        return {'k': 'set_fix', 'params': ps, 'fix': fx}
    if k == 'set_inits':
        ps = []
        for nm in rng.sample(pool, rng.choice([1, 2, 3, 4])):
            vals = sorted(rng.choice([0.0, 0.5, 1.0, 2.0, 10.0, -1.0]) for _ in range(3))
            ps.append([nm, enc(vals[1]), enc(vals[0] if rng.random() < 0.6 else None), enc(vals[2] if rng.random() < 0.6 else None),
                       rng.random() < 0.3])
        inits = {nm: enc(rng.choice([0.0, 0.5, 1.0, 2.0, 10.0, -1.0, 5.0, 'nan', 'inf']))
                 for nm in rng.sample(pool, rng.choice([0, 1, 2, 3]))}
        return {'k': 'set_inits', 'params': ps, 'inits': inits}
    if k == 'names':
        n = rng.choice([0, 1, 2, 3, 4, 5])
        return {'k': 'names', 'names': [rng.choice(pool) for _ in range(n)] if rng.random() < 0.5 else rng.sample(pool, n)}
    if k == 'rvs_seq':
        ds = []
        for _ in range(rng.choice([0, 1, 2, 3])):
            ds.append(rng.sample(pool, rng.choice([1, 1, 2])) if rng.random() < 0.7 else [rng.choice(pool) for _ in range(2)])
        return {'k': 'rvs_seq', 'dists': ds}
    if k == 'rvs_single':
        return {'k': 'rvs_single', 'dist': rng.sample(pool, rng.choice([1, 2])) if rng.random() < 0.7 else ['A', 'A']}
    if k == 'rvs_add':
        base = [[x] for x in rng.sample(pool[:4], rng.choice([0, 1, 2]))]
        return {'k': 'rvs_add', 'base': base, 'dist': [rng.choice(pool)] if rng.random() < 0.6 else rng.sample(pool, 2)}
    # canon
    params = rng.sample(['TH1', 'TH2', 'OM1'], rng.choice([1, 2, 3]))
    rvs = rng.sample(['ETA1', 'ETA2'], rng.choice([0, 1, 2]))
    cols = rng.sample(['WGT', 'TIME', 'AMT'], rng.choice([1, 2, 3]))
    leaves = params + rvs + cols
    vars_ = ['CL', 'V', 'S', 'Y', 'W']
    n = rng.choice([1, 2, 3, 4, 5, 6])
    ode_at = rng.randrange(n) if rng.random() < 0.35 else None
    stmts, defined = [], []
    style = rng.choice(['valid', 'valid', 'free', 'late'])
    for i in range(n):
        if i == ode_at:
            stmts.append(['ODE', rng.choice(defined + params)])
            continue
        lhs = rng.choice(vars_)
        if style == 'valid':
            syms = leaves + defined
        elif style == 'late':
            syms = leaves + vars_
        else:
            syms = leaves + vars_ + ['UNDEF']
        if ode_at is not None:
            syms = syms + ['t']
            if i > ode_at:
                syms = syms + ['A_CENTRAL(t)']
        if rng.random() < 0.08:
            syms = syms + ['NaN']
        if rng.random() < 0.06:
            syms = syms + ['t']
        terms = [rng.choice(syms) for _ in range(rng.choice([1, 2, 3]))]
        fun = rng.random() < 0.08
        stmts.append([lhs, [terms, '+' if rng.random() < 0.7 else '*'], fun])
        if not fun and lhs not in defined:
            defined.append(lhs)
    return {'k': 'canon', 'params': params, 'rvs': rvs, 'cols': cols, 'stmts': stmts}


def enc(v):
    if v is None or isinstance(v, str):
        return v
    return fenc(v)


def dec(v):
    if v is None:
        return None
    if v in ('nan', 'inf', '-inf'):
        return float(v)
    return float.fromhex(v)


def observe(spec, impl=None):
    """runs the real constructors on a spec; returns (coq case term, info).
    impl: optional replacement classes (sensitivity tests run mutated copies of the source files)"""
    import sympy
    from pharmpy.basic import Expr
    from pharmpy.model import (Assignment, Bolus, ColumnInfo, Compartment, CompartmentalSystem,
                               CompartmentalSystemBuilder, DataInfo, JointNormalDistribution, Model,
                               NormalDistribution, Parameter, Parameters, RandomVariables, Statements, output)
    impl = impl or {}
    Parameter = impl.get('Parameter', Parameter)
    Parameters = impl.get('Parameters', Parameters)
    RandomVariables = impl.get('RandomVariables', RandomVariables)
    Model = impl.get('Model', Model)
    names = ct.Names()
    k = spec['k']
    info = {'k': k}

    def pobs(p):
        return 'None' if p is None else '(Some ' + param_term(names, p.name, fenc(p.init), fenc(p.lower), fenc(p.upper), p.fix) + ')'
    if k == 'create':
        try:
            p = Parameter.create(spec['name'], dec(spec['init']), dec(spec['lower']), dec(spec['upper']), spec['fix'])
        except ValueError:
            p = None
        info['accepted'] = p is not None
        return (f"(CCreate {names.p(spec['name'])} {xnum(spec['init'])} {oxnum(spec['lower'])} {oxnum(spec['upper'])} "
                f"{ct.boolean(spec['fix'])} {pobs(p)})"), info
    if k == 'replace':
        b = spec['base']
        base = Parameter.create(b['name'], dec(b['init']), dec(b['lower']), dec(b['upper']), b['fix'])
        kw = {key: (dec(v) if key != 'fix' else v) for key, v in spec['kw'].items()}
        try:
            p = base.replace(**kw)
        except ValueError:
            p = None
        info['accepted'] = p is not None
        bt = param_term(names, base.name, fenc(base.init), fenc(base.lower), fenc(base.upper), base.fix)

        def okw(key):
            return oxnum(spec['kw'][key]) if key in spec['kw'] else 'None'
        fx = f"(Some {ct.boolean(spec['kw']['fix'])})" if 'fix' in spec['kw'] else 'None'
        return f"(CReplace {bt} {okw('init')} {okw('lower')} {okw('upper')} {fx} {pobs(p)})", info
    if k == 'set_fix':
        def mk(n, i, l, u, f, raw):
            if raw:
                return Parameter(n, dec(i), dec(l) if l is not None else -float('inf'), dec(u) if u is not None else float('inf'), f)
            return Parameter.create(n, dec(i), dec(l), dec(u), f)
        base = Parameters.create([mk(*p_) for p_ in spec['params']])
        try:
            r = base.set_fix(dict(spec['fix']))
        except ValueError:
            r = None
        info['accepted'] = r is not None

        def plist2(ps):
            return ct.lst([param_term(names, p.name, fenc(p.init), fenc(p.lower), fenc(p.upper), p.fix) for p in ps])
        fxs = ct.lst([f"({names.p(n)}, {ct.boolean(v)})" for n, v in spec['fix'].items()])
        obs = 'None' if r is None else f"(Some {plist2(r)})"
        return f"(CSetFix {plist2(base)} {fxs} {obs})", info
    if k == 'set_inits':
        base = Parameters.create([Parameter.create(n, dec(i), dec(l), dec(u), f) for n, i, l, u, f in spec['params']])
        try:
            r = base.set_initial_estimates({n: dec(v) for n, v in spec['inits'].items()})
        except ValueError:
            r = None
        info['accepted'] = r is not None

        def plist(ps):
            return ct.lst([param_term(names, p.name, fenc(p.init), fenc(p.lower), fenc(p.upper), p.fix) for p in ps])
        inits = ct.lst([f"({names.p(n)}, {xnum(v)})" for n, v in spec['inits'].items()])
        obs = 'None' if r is None else f"(Some {plist(r)})"
        return f"(CSetInits {plist(base)} {inits} {obs})", info
    if k == 'names':
        try:
            Parameters.create([Parameter.create(n, 1.0) for n in spec['names']])
            ok = True
        except ValueError:
            ok = False
        info['accepted'] = ok
        return f"(CNames {idlist(names, spec['names'])} {ct.boolean(ok)})", info

    def mkdist(ns):
        if len(ns) == 1:
            return NormalDistribution.create(ns[0], 'iiv', 0, 'OM_' + ns[0])
        n = len(ns)
        var = [[f'O{min(i, j)}{max(i, j)}' for j in range(n)] for i in range(n)]
        return JointNormalDistribution.create(ns, 'iiv', [0] * n, var)

    def robs(r):
        return 'None' if r is None else f"(Some {idlist(names, r.names)})"
    if k == 'rvs_seq':
        try:
            r = RandomVariables.create([mkdist(d) for d in spec['dists']])
        except ValueError:
            r = None
        info['accepted'] = r is not None
        return f"(CRvsSeq {ct.lst([idlist(names, d) for d in spec['dists']])} {robs(r)})", info
    if k == 'rvs_single':
        try:
            r = RandomVariables.create(mkdist(spec['dist']))
        except ValueError:
            r = None
        info['accepted'] = r is not None
        return f"(CRvsSingle {idlist(names, spec['dist'])} {robs(r)})", info
    if k == 'rvs_add':
        base = RandomVariables.create([mkdist(d) for d in spec['base']])
        try:
            r = base + mkdist(spec['dist'])
        except ValueError:
            r = None
        info['accepted'] = r is not None
        return f"(CRvsAdd {ct.lst([idlist(names, d) for d in spec['base']])} {idlist(names, spec['dist'])} {robs(r)})", info
    if k == 'canon':
        params = Parameters.create([Parameter.create(n, 1.0) for n in spec['params']])
        rvs = RandomVariables.create([NormalDistribution.create(n, 'iiv', 0, spec['params'][0]) for n in spec['rvs']])
        di = DataInfo.create([ColumnInfo.create(c) for c in spec['cols']])
        sts = []
        for st in spec['stmts']:
            if st[0] == 'ODE':
                cb = CompartmentalSystemBuilder()
                c = Compartment.create('CENTRAL', doses=(Bolus.create('AMT'),))
                cb.add_compartment(c)
                cb.add_flow(c, output, Expr.symbol(st[1]))
                sts.append(CompartmentalSystem(cb))
            else:
                lhs = Expr.function(st[0], 't') if st[2] else Expr.symbol(st[0])
                def sym(nm):
                    if nm.endswith('(t)'):
                        return sympy.Function(nm[:-3])(sympy.Symbol('t'))
                    return sympy.Symbol(nm)
                terms_, op = st[1]
                e = sym(terms_[0])
                for tm in terms_[1:]:
                    e = e + sym(tm) if op == '+' else e * sym(tm)
                sts.append(Assignment.create(lhs, Expr(e)))
        statements = Statements(sts)
        try:
            Model.create('m', parameters=params, random_variables=rvs, datainfo=di, statements=statements)
            obs = 'None'
            info['accepted'] = True
        except ValueError as e:
            msg = str(e)
            info['accepted'] = False
            if 'defined after being used' in msg:
                obs = '(Some DefinedAfter)'
            elif 'is not defined' in msg:
                obs = '(Some NotDefined)'
            else:
                raise
        base = sorted({str(s) for s in rvs.free_symbols} | {str(s) for s in params.symbols} | set(spec['cols']))
        cst = []
        for s in statements:
            if isinstance(s, Assignment):
                if s.symbol.is_function():
                    fun = f"(Some ({names.p(s.symbol.name)}, {idlist(names, [str(a) for a in s.symbol.args if a.is_symbol()])}))"
                else:
                    fun = 'None'
                cst.append(f"(mkc false {names.p(str(s.symbol))} {fun} {idlist(names, sorted(str(x) for x in s.expression.free_symbols))})")
            else:
                cst.append(f"(mkc true {names.p('<ode>')} None [])")
        t = str(statements.ode_system.t) if statements.ode_system is not None else 't'
        info['n'] = len(sts)
        return (f"(CCanon {idlist(names, base)} {names.p(t)} {names.p('NaN')} {ct.lst(cst)} {obs})"), info
    raise ValueError(k)


def wf_case(w):
    """returned model (exported by the oracle worker) -> Coq term"""
    names = ct.Names()
    ps = ct.lst([param_term(names, p[0], p[1], p[2], p[3], p[4]) for p in w['params']])
    rvs = ct.lst([idlist(names, d) for d in w['rvs']])
    cst = []
    for s in w['stmts']:
        if s is None:
            cst.append(f"(mkc true {names.p('<ode>')} None [])")
        else:
            fun = 'None' if s[1] is None else f"(Some ({names.p(s[1][0])}, {idlist(names, s[1][1])}))"
            cst.append(f"(mkc false {names.p(s[0])} {fun} {idlist(names, s[2])})")
    return f"(CModelWf {ps} {rvs} {idlist(names, w['base'])} {names.p(w['t'])} {names.p('NaN')} {ct.lst(cst)})"


# ============================================================================================ findings
def nonmem_roundtrip_model(spec):
    """the smallest direct reproduction of C06-RUVSEARCH-STORED-MODEL-UNDEFINED-SYMBOL: a generic model with the random
    variable names of the spec (tools/ruvsearch/tool.py:379 uses 'eta_base' / 'epsilon'), converted to NONMEM, its code
    generated (update_source: update.py:1590 writes `$ABBR REPLACE eta_base=ETA(1)` with the name's own case,
    records/code_record.py:157 NMTranPrinter._print_Symbol upper-cases the symbol in $PRED) and parsed again — what the model
    database does when a tool stores / retrieves a model"""
    import pandas as pd
    import pharmpy.modeling as pm
    from pharmpy.basic import Expr
    from pharmpy.model import (Assignment, Model, NormalDistribution, Parameter, Parameters, RandomVariables, Statements)
    eta, eps = spec.get('eta', 'eta_base'), spec.get('eps', 'epsilon')
    theta, omega, sigma = Parameter('theta', 0.1), Parameter('omega', 0.01, lower=0), Parameter('sigma', 1, lower=0)
    rvs = RandomVariables.create([NormalDistribution.create(eta, 'iiv', 0, omega.symbol),
                                  NormalDistribution.create(eps, 'ruv', 0, sigma.symbol)])
    y = Assignment.create(Expr.symbol('Y'), theta.symbol + Expr.symbol(eta) + Expr.symbol(eps))
    m = Model.create(name='m', parameters=Parameters((theta, omega, sigma)), random_variables=rvs, statements=Statements([y]),
                     dependent_variables={y.symbol: 1})
    m = m.replace(dataset=pd.DataFrame({'ID': [1, 1, 2, 2], 'TIME': [0.0, 1.0, 0.0, 1.0], 'DV': [0.1, 0.2, 0.3, 0.1]}))
    code = pm.convert_model(m, 'nonmem').update_source().code
    return Model.parse_model_from_string(code)


def undefined_symbols(w):
    """(Python side, for IDENTIFYING a listed defect only) symbols of an exported model that canon would reject"""
    known = set(w['base']) | {w['t'], 'NaN'}
    out = []
    for st in w['stmts']:
        if st is None:
            continue
        lhs, fun, rhs = st
        out += [x for x in rhs if x not in known]
        if fun is None:
            known.add(lhs)
        else:
            known.add(fun[0])
            known.update(fun[1])
    return sorted(set(out))


def is_case_renamed_rv(w):
    """every undefined symbol is the upper-cased name of a random variable whose own name is not upper case: the signature
    of the $ABBR / $PRED case mismatch of the NONMEM code generator"""
    rv_names = [n for d in w['rvs'] for n in d]
    und = undefined_symbols(w)
    return bool(und) and all(any(n != u and n.upper() == u for n in rv_names) for u in und)


def finding_witness_case(f, tabs, B, fns):
    """witness of an open finding -> ('coq', term) | ('python', callable returning tags)"""
    w = f['witness']
    kind = w['kind']
    if kind in ('create', 'rvs_add', 'rvs_single'):
        spec = dict(w)
        spec['k'] = kind
        spec.pop('kind')
        return 'coq', observe(spec)[0]
    if kind == 'eqhash':
        tab = next(t for t in tabs if t['class'] == w['class'])
        names = ct.Names()
        r = eqhash_pair_case(tab, w['class'], w['a'], w['b'], B, fns, names)
        return 'coq', r[0]
    if kind == 'inplace':
        def probe():
            return inplace_probe(w)
        return 'python', probe
    if kind == 'unhashable_result':
        def probe():
            import pharmpy.modeling as pm
            m = pm.load_example_model(w.get('model', 'pheno'))
            obj = m
            for attr in w['path']:
                obj = getattr(obj, attr)
            r = getattr(obj, w['method'])(m.statements[w['statement']])
            try:
                hash(r)
                return [], []
            except TypeError as e:
                return [23], [f'{type(r).__name__}._statements is a {type(r._statements).__name__}: {e}']
        return 'python', probe
    if kind == 'nonmem_roundtrip':
        from harness.props import c06_oracle as oc
        ex = oc.export_model('nonmem_roundtrip', nonmem_roundtrip_model(w))
        return 'both', (wf_case(ex), [])
    if kind == 'returned':
        import pharmpy.modeling as pm
        from harness.props import c06_oracle as oc
        m = pm.load_example_model(w.get('model', 'pheno'))
        for fn, a in w.get('history', []):
            m = getattr(pm, fn)(m, *a)
        r = getattr(pm, w['function'])(m, *w.get('args', []), **w.get('kwargs', {}))
        ex = oc.export_model(w['function'], r)
        return 'both', (wf_case(ex), [] if ex['code_ok'] else [19])
    raise ValueError(kind)


def inplace_probe(w):
    """calls the function named in the witness on a fresh example model and snapshots the dataset"""
    import importlib
    import pharmpy.modeling as pm
    from harness.props import c06_oracle as oc
    m = pm.load_example_model(w.get('model', 'pheno'))
    for step in w.get('history', []):
        m = getattr(pm, step)(m)
    mod = importlib.import_module(w['module'])
    fn = getattr(mod, w['function'])
    before = oc.snapshot(m)
    try:
        fn(m, *w.get('args', []))
    except Exception:
        pass
    d = oc.diff(before, m)
    return ([21] if d else []), d


# ============================================================================================ the run
def classify_tags(ctx, tags, spec, what_prefix=''):
    """generic classification of one Coq case"""
    tags = set(tags)
    status = 'ok'
    oracle = sorted(t for t in tags if t in ORACLE_TAGS)
    corr = sorted(t for t in tags if t in CORR_TAGS)
    for t in oracle:
        fid = None
        if t == 15 and not ({5, 6} & tags) and 206 in tags:
            fid = spec.get('finding')       # the class itself hashes a term it does not compare
        if fid and ctx.open_finding(fid):
            ctx.coverage.setdefault('known_hits', {}).setdefault(fid, 0)
            ctx.coverage['known_hits'][fid] += 1
            if status == 'ok':
                status = 'known'
        else:
            ctx.violation(what_prefix + TAGS[t], {'spec': spec, 'tags': sorted(tags), 'tag_meaning': TAGS[t]})
            status = 'violation'
    if corr and status != 'violation':
        ctx.broken.append('correspondence C06 model vs implementation: ' + ', '.join(TAGS[t] for t in corr)
                          + ' on ' + json.dumps(spec)[:300])
        ctx.coverage.setdefault('corr_disagreements', []).append({'spec': spec, 'tags': sorted(tags)})
        status = 'broken'
    return status


def finding_probes(ctx, tabs, B, fns):
    terms, fids = [], []
    for f in ctx.findings:
        if f.get('status') != 'open':
            continue
        try:
            how, x = finding_witness_case(f, tabs, B, fns)
        except Exception as e:      # noqa
            ctx.notes.append(f"finding_not_reproduced {f['id']} (witness could not be built: {type(e).__name__}: {e})")
            continue
        if how == 'both':
            x, pytags = x
            if f['expect_tag'] in pytags:
                ctx.known(f['id'])
                continue
            how = 'coq'
        if how == 'coq':
            terms.append(x)
            fids.append(f)
        else:
            tags, detail = x()
            if f['expect_tag'] in tags:
                ctx.known(f['id'])
                ctx.coverage.setdefault('finding_witnesses', {})[f['id']] = detail
            else:
                ctx.notes.append(f"finding_not_reproduced {f['id']} (tags {tags})")
    if terms:
        res = ctx.run_cases('findings', IMPORTS, 'case', terms, 'verdict', shard=50)
        for f, tags in zip(fids, res):
            if f['expect_tag'] in tags:
                ctx.known(f['id'])
            else:
                ctx.notes.append(f"finding_not_reproduced {f['id']} (tags {sorted(tags)})")


def wf_part(ctx, tabs, B, fns):
    """constructor correspondence + eq/hash pairs"""
    reg = sorted((VERIF / 'regress' / 'C06').glob('*.json'))
    specs = [json.loads(p.read_text()) for p in reg]
    reg_pairs = [s for s in specs if s.get('k') == 'eqhash']
    # witnesses of repaired in-place writes: a recurrence is a violation
    for sp in [s for s in specs if s.get('k') == 'inplace']:
        tags, detail = inplace_probe(sp)
        ctx.coverage['regress_inplace'] = ctx.coverage.get('regress_inplace', 0) + 1
        if tags:
            ctx.violation(f"{sp['function']} modifies the dataset of the model passed to it: {'; '.join(detail)[:300]}",
                          {'spec': sp, 'tags': tags, 'tag_meaning': TAGS[21]})
    # NONMEM code generation round trips: the listed lower-case-name case and controls
    for sp in [s for s in specs if s.get('k') == 'roundtrip']:
        from harness.props import c06_oracle as oc
        ex = oc.export_model('nonmem_roundtrip', nonmem_roundtrip_model(sp))
        ctags = ctx.run_cases('regress-roundtrip', IMPORTS, 'case', [wf_case(ex)], 'verdict')[0]
        ctx.coverage['regress_roundtrip'] = ctx.coverage.get('regress_roundtrip', 0) + 1
        for t in sorted(t for t in ctags if t in ORACLE_TAGS):
            fid = sp.get('finding')
            if t == 18 and fid and ctx.open_finding(fid) and is_case_renamed_rv(ex):
                ctx.coverage.setdefault('known_hits', {}).setdefault(fid, 0)
                ctx.coverage['known_hits'][fid] += 1
            else:
                ctx.violation(f"NONMEM code round trip of a model with rv names {sp.get('eta')}/{sp.get('eps')}: {TAGS[t]} "
                              f"({undefined_symbols(ex)})", {'spec': sp, 'tags': [t], 'tag_meaning': TAGS[t]})
    # witnesses of repaired returned-model defects
    for sp in [s for s in specs if s.get('k') == 'returned']:
        w = dict(sp)
        w['kind'] = 'returned'
        how, (term, pytags) = finding_witness_case({'witness': w}, tabs, B, fns)
        ctags = ctx.run_cases('regress-returned', IMPORTS, 'case', [term], 'verdict')[0]
        ctx.coverage['regress_returned'] = ctx.coverage.get('regress_returned', 0) + 1
        for t in sorted(set(pytags) | {t for t in ctags if t in ORACLE_TAGS}):
            ctx.violation(f"model returned by {sp['function']}: {TAGS[t]}", {'spec': sp, 'tags': [t], 'tag_meaning': TAGS[t]})
    specs = [s for s in specs if s.get('k') in ('create', 'replace', 'names', 'set_inits', 'set_fix', 'rvs_seq', 'rvs_single', 'rvs_add', 'canon')]
    n = 500 if ctx.tier == 'quick' else 8000
    specs += [gen_spec(ctx.rng) for _ in range(n)]
    terms, kept, infos = [], [], []
    for s in specs:
        term, info = observe(s)
        terms.append(term)
        kept.append(s)
        infos.append(info)
    # eq/hash pairs
    names = ct.Names()
    pair_specs = []
    for tab in tabs:
        cls = tab['class']
        for sa in EQHASH_SPECS.get(cls, []):
            for sb in EQHASH_SPECS.get(cls, []):
                pair_specs.append((tab, cls, sa, sb))
    for sp in reg_pairs:
        tab = next((t for t in tabs if t['class'] == sp['class']), None)
        if tab is not None:
            r = eqhash_pair_case(tab, sp['class'], sp['a'], sp['b'], B, fns, names)
            if r is not None:
                terms.append(r[0])
                kept.append({'k': 'eqhash', 'class': sp['class'], 'a': sp['a'], 'b': sp['b'],
                             'finding': EQHASH_FINDINGS.get(sp['class']), 'hash_error': r[1]['hash_error'], 'regress': True})
                infos.append({'k': 'eqhash'})
    skipped_classes = sorted(t['class'] for t in tabs if t['class'] not in EQHASH_SPECS)
    cache = {}

    def built(cls, s, slot):
        # objects are immutable values: build each spec twice (two distinct objects) and reuse
        key = (cls, EQHASH_SPECS[cls].index(s), slot)
        if key not in cache:
            cache[key] = B[cls](s)
        return cache[key]
    npairs = 0
    for tab, cls, sa, sb in pair_specs:
        r = eqhash_pair_case(tab, cls, sa, sb, B, fns, names, objs=(built(cls, sa, 0), built(cls, sb, 1)))
        if r is None:
            continue
        terms.append(r[0])
        kept.append({'k': 'eqhash', 'class': cls, 'a': sa, 'b': sb, 'finding': EQHASH_FINDINGS.get(cls),
                     'hash_error': r[1]['hash_error']})
        infos.append({'k': 'eqhash'})
        npairs += 1
    verdicts = ctx.run_cases('wf', IMPORTS, 'case', terms, 'verdict', shard=150)
    stats = {'ok': 0, 'known': 0, 'violation': 0, 'broken': 0}
    for s, tags, inf in zip(kept, verdicts, infos):
        stats[classify_tags(ctx, tags, s)] += 1
    by_kind = {}
    for s, i, v in zip(kept, infos, verdicts):
        d = by_kind.setdefault(s['k'], {'n': 0, 'accepted': 0, 'guard_false': 0})
        d['n'] += 1
        d['accepted'] += 1 if i.get('accepted') else 0
        d['guard_false'] += 1 if any(t >= 200 for t in v) else 0
    ctx.coverage['constructor_cases'] = by_kind
    ctx.coverage['eqhash_pairs'] = npairs
    ctx.coverage['eqhash_classes_without_builder'] = skipped_classes
    ctx.coverage['case_status'] = stats
    return kept, verdicts, infos


def oracle_part(ctx, eff):
    import multiprocessing as mp
    import pharmpy.modeling as pm
    from harness.props import c06_oracle as oc
    names = [n for n in pm.__all__ if callable(getattr(pm, n))]
    cwd = ctx.rundir / 'cwd'
    cwd.mkdir(exist_ok=True)
    old = os.getcwd()
    os.chdir(cwd)
    try:
        import inspect
        parser = __import__('doctest').DocTestParser()
        with_ex = [n for n in names if parser.get_examples(inspect.getdoc(getattr(pm, n)) or '')]
        jobs = []
        nchunk = max(4, core.JOBS)
        chunks = [with_ex[i::nchunk] for i in range(nchunk)]
        if ctx.tier == 'quick':
            rv = ['foabs+periph']
            for kind in ['constant', 'median_min', 'median_max', 'binary_major0', 'negative']:
                jobs.append({'mode': 'covariates', 'names': [], 'kinds': [kind], 'seed': ctx.seed})
            for c in chunks:
                jobs.append({'mode': 'doctest+replay', 'names': c, 'replay_variants': rv, 'seed': ctx.seed,
                             'vary': True, 'vary_limit': 8, 'hash_history': True, 'hash_limit': 10})
            for tool in ('ruvsearch', 'allometry', 'covsearch'):
                jobs.insert(0, {'mode': 'tool', 'names': [], 'tool': tool, 'workdir': str(cwd / ('tool_' + tool)), 'seed': ctx.seed})
            jobs.append({'mode': 'factory', 'names': names, 'variant': 'base', 'seed': ctx.seed})
            jobs.append({'mode': 'factory', 'names': names, 'variant': 'nmtran_date', 'seed': ctx.seed})
        else:
            allv = [v for v in oc.VARIANTS if v != 'base']
            for c in chunks:
                jobs.append({'mode': 'doctest+replay', 'names': c, 'replay_variants': allv, 'seed': ctx.seed,
                             'vary': True, 'vary_limit': None, 'hash_history': True, 'hash_limit': None})
            for kind in oc.DEGENERATE:
                jobs.append({'mode': 'covariates', 'names': [], 'kinds': [kind], 'seed': ctx.seed})
            for tool in oc.TOOL_RUNS:
                jobs.insert(0, {'mode': 'tool', 'names': [], 'tool': tool, 'workdir': str(cwd / ('tool_' + tool)), 'seed': ctx.seed})
            for v in oc.VARIANTS:
                jobs.append({'mode': 'factory', 'names': names, 'variant': v, 'seed': ctx.seed})
            for v in ('periph', 'foabs', 'generic', 'tad'):
                for c in chunks:
                    jobs.append({'mode': 'doctest', 'names': c, 'variant': v, 'seed': ctx.seed})
        ctxmp = mp.get_context('fork')
        with ProcessPoolExecutor(max_workers=core.JOBS, mp_context=ctxmp) as ex:
            results = list(ex.map(oc.worker, jobs))
    finally:
        os.chdir(old)
    events, wf, wstats = [], [], []
    for r in results:
        events += r['events']
        wf += r['wf']
        wstats.append(r['stats'])
        if 'worker_error' in r['stats']:
            ctx.broken.append('oracle worker failed: ' + r['stats']['worker_error'])
    called = {e['function'] for e in events}
    cov = ctx.coverage.setdefault('oracle', {})
    cov['public_functions'] = len(names)
    cov['functions_called'] = len(called & set(names))
    cov['functions_never_called'] = sorted(set(names) - called)
    cov['calls'] = len(events)
    outcomes = {}
    for e in events:
        outcomes[e['outcome']] = outcomes.get(e['outcome'], 0) + 1
    cov['outcomes'] = outcomes
    cov['calls_with_model_argument'] = sum(1 for e in events if e['nmodels'])
    cov['doctest_examples_run'] = sum(s.get('examples_run', 0) for s in wstats)
    cov['doctest_example_errors'] = sum(s.get('example_errors', 0) for s in wstats)
    cov['varied_calls'] = sum(s.get('varied', 0) for s in wstats)
    cov['hash_history_pairs'] = sum(s.get('hash_pairs', 0) for s in wstats)
    cov['degenerate_covariate_calls'] = sum(s.get('covariate_calls', 0) for s in wstats)
    cov['tool_runs_with_dummy_esttool'] = {e['function']: {'outcome': e['outcome'], 'stored_models': e.get('stored_models')}
                                            for e in events if e['function'].startswith('tools.run_')}
    for e in events:
        for pr in e.get('hash_problems') or []:
            ctx.violation(f"{e['function']}({', '.join(e['args'])}): {pr}",
                          {'kind': 'oracle-call', 'event': e, 'tags': [15], 'tag_meaning': TAGS[15]})
    cov['replayed_calls'] = sum(sum(s.get('replayed', {}).values()) for s in wstats)
    # ---- mutation events
    known_functions = {k[1]: fid for k, (fid, _) in EFFECT_FINDINGS.items()}
    newly = {n['function'] for n in (eff['newly'] if eff else [])}
    mut = [e for e in events if e['mutated']]
    cov['mutating_calls'] = len(mut)
    found_for_new = set()
    for e in mut:
        fid = known_functions.get(e['function'])
        if fid and ctx.open_finding(fid):
            ctx.coverage.setdefault('known_hits', {}).setdefault(fid, 0)
            ctx.coverage['known_hits'][fid] += 1
            continue
        if e['function'] in newly:
            found_for_new.add(e['function'])
        ctx.violation(f"{e['function']}({', '.join(e['args'])}) modified its argument: {'; '.join(e['mutated'])[:300]}",
                      {'kind': 'oracle-call', 'event': e, 'tags': [21], 'tag_meaning': TAGS[21]})
    # newly flagged functions: the obligation is broken; if the oracle found no failing call say so
    if eff:
        for nfl in eff['newly']:
            desc = '; '.join(f"{s['function']}:{s['line']} {s['what']} ({s['origin']})" for s in nfl['sites'][:4])
            if nfl['function'] not in found_for_new:
                ctx.broken.append(f"effect checker rejects public function {nfl['function']}: {desc}")
    # ---- returned models through the Coq well-formedness predicate
    terms, kept = [], []
    seen = set()
    for w in wf:
        if 'export_error' in w:
            cov['export_errors'] = cov.get('export_errors', 0) + 1
            continue
        key = json.dumps([w['params'], w['rvs'], w['stmts'], w['base']], sort_keys=True)
        if key in seen:
            continue
        seen.add(key)
        terms.append(wf_case(w))
        kept.append(w)
    cov['returned_models'] = len(wf)
    cov['distinct_returned_models'] = len(kept)
    if terms:
        verdicts = ctx.run_cases('returned', IMPORTS, 'case', terms, 'verdict', shard=60)
        for w, tags in zip(kept, verdicts):
            bad = sorted(t for t in tags if t in ORACLE_TAGS)
            for t in bad:
                fid = RETURNED_FINDINGS.get((w['function'], t))
                if fid == 'C06-RUVSEARCH-STORED-MODEL-UNDEFINED-SYMBOL' and not is_case_renamed_rv(w):
                    fid = None                  # another undefined-symbol defect: not this finding
                if fid and ctx.open_finding(fid):
                    ctx.coverage.setdefault('known_hits', {}).setdefault(fid, 0)
                    ctx.coverage['known_hits'][fid] += 1
                    continue
                ctx.violation(f"model returned by {w['function']}: {TAGS[t]}",
                              {'kind': 'returned-model', 'model': w, 'tags': sorted(tags), 'tag_meaning': TAGS[t]})
    for w in wf:
        if w.get('code_ok') is False:
            ctx.violation(f"model returned by {w['function']}: code cannot be produced ({w.get('code_err')})",
                          {'kind': 'returned-model', 'model': w, 'tags': [19], 'tag_meaning': TAGS[19]})
        if w.get('update_source_mutated'):
            if True:
                ctx.violation(f"update_source() on the model returned by {w['function']} modified it: {w['update_source_mutated']}",
                              {'kind': 'returned-model', 'model': w, 'tags': [22], 'tag_meaning': TAGS[22]})
    return events, kept


def run(ctx):
    # staged entries of known_findings.d replace entries of known_findings.json with the same id
    ctx.findings = list({f['id']: f for f in ctx.findings}.values())
    ctx.build_gate(['C06'])
    ctx.trusted += [
        'harness/props/c06_effects.py: syntax-directed Python-ast -> effect-IR translator (control flow -> Seq/Alt/Star/Part; '
        'method classification tables FRESH/VIEW/MUTATOR; frame-typed-local rule for subscript stores; instance-field rule for self.x = v)',
        'harness/props/c06_eqhash.py: __eq__/__hash__ -> term tables',
        'harness/lib/coqterm.py printers; exact float -> Q conversion of parameter values',
        'pharmpy core code outside pharmpy/modeling and nonmem/update.py (Expr, Assignment.create, ColumnInfo.create, eval_expr ...) '
        'is assumed not to mutate its arguments (listed in build/gen/C06/effects_meta.json: trusted_core)',
        'harness/props/c06_oracle.py snapshots (Python-side search/validation, not part of any proof)',
    ]
    ctx.assumptions += [
        'heap model: one location per mutable object, a variable may reach several; pandas/numpy/builtin methods behave as '
        'classified in the translator tables (FRESH: new object, VIEW: may share memory, MUTATOR: in place)',
        'properties (obj.attr running code), __getattr__ hooks, decorators and module-level state are not modelled',
        'engine-internal aliasing inside pandas (copy-on-write bookkeeping) is not modelled',
        'the eq/hash law is proved per class over atomic terms; nested violations propagate (Statements containing a '
        'CompartmentalSystem) and are observed behaviourally only',
        'Parameter bounds/inits are compared as exact rationals of the IEEE doubles; float arithmetic is not involved in the checks',
    ]
    ctx.coverage['source_sha'] = source_sha('src/pharmpy/model/model.py', 'src/pharmpy/model/parameters.py',
                                            'src/pharmpy/model/random_variables.py', 'src/pharmpy/model/statements.py',
                                            'src/pharmpy/model/datainfo.py', 'src/pharmpy/internals/immutable.py')
    import warnings
    warnings.filterwarnings('ignore')
    tabs = eqhash_tables(ctx)
    B, fns = eqhash_builders()
    finding_probes(ctx, tabs, B, fns)
    ctx.log('effects: regenerate + analyse')
    eff = effects_part(ctx)
    ctx.log('eq/hash tables')
    eqhash_part(ctx, tabs)
    cache_part(ctx)
    immutable_part(ctx)
    ctx.log('constructor correspondence')
    kept, verdicts, infos = wf_part(ctx, tabs, B, fns)
    ctx.log('behavioural oracle')
    events, returned = oracle_part(ctx, eff)
    ev = len(kept) + len(events) + len(returned)
    ctx.coverage['evaluations'] = ev
    distinct = {json.dumps(s, sort_keys=True) for s in kept if s['k'] != 'names' or len(s.get('names', [])) >= 2}
    distinct_calls = {json.dumps([e['function'], e['args']]) for e in events if e['nmodels']}
    ctx.coverage['distinct_nontrivial'] = len(distinct) + len(distinct_calls)
    ctx.coverage['programs'] = ctx.coverage.get('effects', {}).get('functions_translated', 0)
    ctx.coverage['rule'] = (
        'constructor / eq-hash cases: random specs from VERIF_SEED (mostly valid + malformed stream: NaN / inf bounds, '
        'duplicate names, use-before-definition, undefined symbols, applied-function left-hand sides), distinct by spec text, '
        'name lists need >= 2 names; oracle calls: docstring examples of every public function, typed factory for the rest, '
        'replayed on transformed models; non-trivial = the call takes a Model; distinct by (function, argument summary)')
    ctx.coverage['input_distribution'] = {
        'constructor_kinds': ctx.coverage.get('constructor_cases'),
        'oracle_outcomes': ctx.coverage.get('oracle', {}).get('outcomes'),
        'guard_false_cases': sum(1 for v in verdicts if any(t >= 200 for t in v)),
    }
    ctx.coverage['samples'] = ([{'spec': s, 'tags': v} for s, v in list(zip(kept, verdicts))[:3]]
                               + [{'call': e} for e in events[:3]])


def replay(ctx, rep):
    import warnings
    warnings.filterwarnings('ignore')
    kind = rep.get('kind') or (rep.get('spec') or {}).get('k')
    if 'spec' in rep and rep['spec'].get('k') in ('create', 'replace', 'names', 'set_inits', 'set_fix', 'rvs_seq', 'rvs_single', 'rvs_add', 'canon'):
        term, info = observe(rep['spec'])
        tags = ctx.run_cases('replay', IMPORTS, 'case', [term], 'verdict')[0]
        print('spec', json.dumps(rep['spec']))
        print('tags', tags, [TAGS.get(t, t) for t in tags])
        return 1 if any(t in ORACLE_TAGS or t in CORR_TAGS for t in tags) else 0
    if 'spec' in rep and rep['spec'].get('k') == 'inplace':
        tags, detail = inplace_probe(rep['spec'])
        print('spec', json.dumps(rep['spec']))
        print('tags', tags, detail)
        return 1 if tags else 0
    if 'spec' in rep and rep['spec'].get('k') == 'eqhash':
        tabs, _ = c06_eqhash.tables(REPO / 'src')
        B, fns = eqhash_builders()
        s = rep['spec']
        tab = next(t for t in tabs if t['class'] == s['class'])
        term, info = eqhash_pair_case(tab, s['class'], s['a'], s['b'], B, fns, ct.Names())
        tags = ctx.run_cases('replay', IMPORTS, 'case', [term], 'verdict')[0]
        print('tags', tags, [TAGS.get(t, t) for t in tags], info)
        return 1 if any(t in ORACLE_TAGS or t in CORR_TAGS for t in tags) else 0
    if kind == 'oracle-call':
        # re-issue the calls of the same origin (docstring examples / factory call of that function, replays and
        # variations included) and report every call that modifies an argument
        import pharmpy.modeling as pm
        from harness.props import c06_oracle as oc
        ev = rep['event']
        org = ev.get('origin') or {}
        import inspect
        names = [n for n in pm.__all__ if callable(getattr(pm, n))
                 and ev['function'] in (inspect.getdoc(getattr(pm, n)) or '')]
        cwd = ctx.rundir / 'cwd'
        cwd.mkdir(exist_ok=True)
        os.chdir(cwd)
        jobs = [{'mode': 'doctest+replay', 'names': names, 'replay_variants': list(oc.VARIANTS)[1:], 'vary': True, 'seed': ctx.seed},
                {'mode': 'factory', 'names': [ev['function']], 'variant': org.get('variant', 'base'), 'seed': ctx.seed}]
        bad = 0
        for job in jobs:
            r = oc.worker(job)
            for e in r['events']:
                if e['function'] == ev['function'] and e['mutated']:
                    bad += 1
                    print('MODIFIED ARGUMENT:', json.dumps(e))
        print('calls of', ev['function'], 'that modified an argument:', bad)
        return 1 if bad else 0
    print(json.dumps(rep, indent=1)[:3000])
    return 1
