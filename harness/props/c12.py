"""C12 — serialisation round trips and model hashes identify models across processes.
Model: coq/theories/C12 (Model.v, Check.v); theorems in Properties.v / Refuted.v.
Tie: real pharmpy objects (synthetic components and the parts of models reached by short
transformation histories from the example models) are exported as Gallina terms together with their
real to_dict(), the real json round trip of it, the real from_dict() results and the real `==`
answers; the model is re-run inside Coq and compared (tags 1..9) and the property is evaluated on the
implementation's answers (tags >= 11).  Model keys are computed in separate interpreter processes
with different PYTHONHASHSEED values (harness/props/c12_worker.py)."""
import hashlib
import json
import os
import subprocess
import sys
import tempfile
import warnings
from concurrent.futures import ThreadPoolExecutor
from pathlib import Path

from harness.lib import coqterm as ct
from harness.lib.core import REPO, VERIF, source_sha
from harness.props import c12_export as ex
from harness.props import c12_gen as gen

warnings.filterwarnings('ignore')

LEVEL = 'proof'
IMPORTS = 'C12.Model C12.Check'
PRELUDE = 'From Coq Require Import String.\nLocal Open Scope nat_scope.\nLocal Open Scope string_scope.'

TAGS = {
    1: 'to_dict differs from model', 2: 'json.loads(json.dumps(d)) differs from normalise d',
    3: 'from_dict(to_dict(x)) differs from model', 4: 'from_dict(json image) differs from model',
    5: '== differs from model', 6: '== (json way back) differs from model',
    7: 'predecessors of output are not in node order', 8: 'equality of encoded texts differs from model',
    10: 'encoded dictionary (hashing._encode) differs from model',
    9: 'key is not a function of (dataset bytes, dictionary text) alone',
    11: 'from_dict(to_dict(x)) != x', 12: 'from_dict(json.loads(json.dumps(to_dict(x)))) != x',
    13: 'equal content but different key / dictionary text', 14: 'different content but same key / dictionary text',
    15: 'key differs between interpreter processes', 16: 'generic model code does not parse back to an equal model',
    17: 'a symbolic leaf does not survive serialize/deserialize', 18: 'json text round trip is not idempotent',
    19: 'generic model file cannot be read back to an equal model',
    20: 'to_dict() is not accepted by json.dumps', 21: 'different dataset but same key',
    23: 'equal datasets (DataFrame.equals) but different DatasetHash', 24: 'different datasets but the same DatasetHash',
    25: 'DatasetHash differs between interpreter processes',
    45: 'graph built by add_compartment / add_flow / remove_flow differs from the modelled builder history',
    43: 'convert_model(m, generic) == m differs from model', 44: 'convert_model(m, generic) is not equal to the model',
    40: 'Results.to_json differs from model', 41: 'read_results differs from model',
    42: 'read_results(r.to_json()) does not give the results object back',
    30: 'DatasetHash equality differs from equality of the modelled hash input', 31: 'DataFrame.equals differs from model',
}
CORR = (1, 2, 3, 4, 5, 6, 7, 8, 9, 10, 30, 31, 40, 41, 43, 45)
ORACLE = (11, 12, 13, 14, 15, 16, 17, 18, 19, 20, 21, 23, 24, 25, 42, 44)
F_DERIV, F_INTKEY, F_SREPR, F_EQDOSING, F_TOOLORDER, F_INDEXREPR = (
    'C12-DERIVATIVES-TEXT', 'C12-JSON-INTKEY', 'C12-SREPR-DISTRIBUTES', 'C12-EQ-DOSING-ORDER',
    'C12-HASH-TOOLOPTIONS-ORDER', 'C12-DATASET-INDEX-REPR')
F_RESPATH = 'C12-RESULTS-PATH-READ'
# fixed in /repo in Phase 3C (7115d86, 36ee5f2): C12-GENERIC-VALUE-TYPE, C12-MODELFIT-GRADIENTS-DEFAULT
# fixed in /repo (cee2988, ddb8814, eb87ce1, 30e26dc, e582408): C12-JSON-TUPLE, C12-HASH-ORDER, C12-HASH-DEPVAR-ORDER,
# C12-GENERIC-READ, C12-CATEGORIES-MAPPING -- their witnesses stay in regress/C12; a recurrence is a VIOLATION


# ------------------------------------------------------------------ implementation side helpers
def safe_eq(a, b):
    if a is None:
        return None
    try:
        r = (a == b)
    except Exception:
        return None
    return bool(r) if isinstance(r, (bool,)) or type(r).__name__ == 'bool_' else None


def leaves(x, acc=None, seen=None):
    """All Expr / Matrix / Unit objects reachable from a pharmpy object."""
    import networkx as nx
    import pandas as pd
    from pharmpy.basic import Expr, Matrix
    from pharmpy.basic.unit import Unit
    if acc is None:
        acc, seen = [], set()
    if id(x) in seen:
        return acc
    seen.add(id(x))
    if isinstance(x, (Expr, Matrix, Unit)):
        acc.append(x)
    elif isinstance(x, (str, int, float, bool, type(None), pd.DataFrame, Path)):
        pass
    elif isinstance(x, (tuple, list, set, frozenset)):
        for y in x:
            leaves(y, acc, seen)
    elif isinstance(x, nx.DiGraph):
        for n in x.nodes:
            leaves(n, acc, seen)
        for _, _, r in x.edges.data('rate'):
            leaves(r, acc, seen)
    elif hasattr(x, 'items') and callable(x.items):
        for k, v in x.items():
            leaves(k, acc, seen)
            leaves(v, acc, seen)
    elif hasattr(x, '__dict__'):
        for v in vars(x).values():
            leaves(v, acc, seen)
    return acc


def engine_ok(x):
    from pharmpy.basic import Expr, Matrix
    from pharmpy.basic.unit import Unit
    n = 0
    for e in leaves(x):
        n += 1
        s = e.serialize()
        back = type(e).deserialize(s)
        if not (back == e) or back.serialize() != s:
            return False, n
        if isinstance(e, Unit):
            b2 = Unit.deserialize(str(e))
            if not (b2 == e) or b2.serialize() != s:
                return False, n
    return True, n


def generic_roundtrip(m, rundir):
    from pharmpy.modeling import convert_model, read_model, read_model_from_string, write_model
    g = convert_model(m, 'generic')
    conv = safe_eq(g, m)
    try:
        viastr = safe_eq(read_model_from_string(g.code), m)
    except Exception:
        viastr = False
    d = Path(tempfile.mkdtemp(dir=rundir, prefix='generic'))
    try:
        write_model(g, d / 'model.ppmod', force=True)
        viafile = bool(safe_eq(read_model(d / 'model.ppmod'), m))
    except Exception:
        viafile = False
    return viastr, viafile, conv


def cobool(b):
    return 'None' if b is None else f'(Some {ex.cbool(b)})'


def opt_obj(kind, o, info, what):
    """An object that from_dict returned: one the exporter refuses (e.g. a list where the class holds a tuple) is
    reported like a failed from_dict, so that the comparison with the model fires instead of the case being skipped."""
    if o is None:
        return 'None'
    try:
        return f'(Some {ex.obj(kind, o)})'
    except ex.Unconvertible as e:
        info.setdefault('unconvertible_results', []).append(f'{what}: {e}')
        return 'None'


def observe(kind, x, ctx=None, with_generic=False, spec=None):
    """One object: returns (coq term of type case, info)."""
    d = x.to_dict()
    fd = gen.from_dict_of(kind, x)
    back = backj = None
    try:
        back = fd(d)
    except Exception:
        pass
    eq_back = safe_eq(back, x)
    try:
        js = json.dumps(d)
        dumps_ok = True
    except TypeError:
        js, dumps_ok = '', False
    if dumps_ok:
        d2 = json.loads(js)
        try:
            backj = fd(d2)
        except Exception:
            pass
        eq_json = safe_eq(backj, x)
        idem = json.dumps(d2) == js and json.loads(json.dumps(d2)) == d2
    else:
        d2, eq_json, idem = None, None, True
    ok, nleaves = engine_ok(x)
    viastr = viafile = conv = None
    if kind == 'model' and with_generic and dumps_ok:
        viastr, viafile, conv = generic_roundtrip(x, ctx.rundir)
    cd = ex.canon_dict(kind, d)
    cd2 = ex.canon_dict(kind, d2) if dumps_ok else None
    enc = None
    if kind == 'model' and dumps_ok:
        enc = 'Some ' + ex.pyv(ex.canon_dict(kind, encoded_dict(x)))
    hist = gen.csys_history(spec) if (kind == 'csys' and isinstance(spec, dict)) else None
    info = {'history_ops': None if hist is None else len(hist),
            'history_removes': 0 if hist is None else sum(1 for h in hist if h[0] == 'remove')}
    xterm = ex.obj(kind, x)            # the only export that may skip the case (Unconvertible propagates)

    def dict_term(v, what):
        # a dictionary the exporter refuses (a value json cannot hold) must alarm, not be skipped
        try:
            return ex.pyv(v)
        except ex.Unconvertible as e:
            info.setdefault('unconvertible_results', []).append(f'{what}: {e}')
            return 'PNone'
    term = ('(mkCase ' + '\n  '.join([
        xterm, dict_term(cd, 'to_dict'), dict_term(cd2, 'json image'),
        opt_obj(kind, back, info, 'from_dict(to_dict)'), opt_obj(kind, backj, info, 'from_dict(json)'),
        cobool(eq_back), cobool(eq_json), ex.cbool(dumps_ok),
        ex.out_preds(x) if kind == 'csys' else 'None',
        ex.cbool(ok), ex.cbool(idem), cobool(viastr), cobool(viafile),
        'None' if enc is None else f'({enc})', cobool(conv),
        'None' if hist is None else f'(Some {ex.history(hist)})']) + ')')
    info.update({'kind': kind, 'leaves': nleaves, 'text_len': len(js), 'eq_back': eq_back, 'eq_json': eq_json,
                 'dumps_ok': dumps_ok})
    return term, info


def malform(rng, d):
    """Delete or add one key somewhere in a (deep copy of a) dictionary; returns (dict, description)."""
    import copy
    d = copy.deepcopy(d)
    nodes = []

    def walk(v, path):
        if isinstance(v, dict):
            nodes.append((v, path))
            for k, x in v.items():
                walk(x, path + [k])
        elif isinstance(v, (list, tuple)):
            for i, x in enumerate(v):
                walk(x, path + [i])
    walk(d, [])
    cands = [(n, p) for n, p in nodes if len(n) > 0]
    node, path = rng.choice(cands)
    if rng.random() < 0.75:
        k = rng.choice(list(node.keys()))
        del node[k]
        return d, f'del {path + [k]}'
    node['zzz'] = 1
    return d, f'add {path}'


def observe_malformed(kind, x, rng):
    """from_dict on a dictionary with one key removed / added."""
    d0 = x.to_dict()

    def detuple(v):   # tuples cannot be edited in place
        if isinstance(v, tuple):
            return tuple(detuple(y) for y in v)
        if isinstance(v, list):
            return [detuple(y) for y in v]
        if type(v) is dict:
            return {k: detuple(y) for k, y in v.items()}
        return v
    d, what = malform(rng, detuple(d0))
    fd = gen.from_dict_of(kind, x)
    try:
        back = fd(d)
        err = None
    except Exception as e:
        back, err = None, type(e).__name__
    cd = ex.canon_dict_lenient(kind, d)
    info = {'kind': kind, 'what': what, 'error': err}
    term = f"(mkF {ex.obj(kind, x)}\n  {ex.pyv(cd)}\n  {opt_obj(kind, back, info, 'from_dict(malformed)')})"
    return term, info


def encoded_dict(m):
    """What ModelHash digests of a model, read back: json.loads(hashing._encode(m))."""
    from pharmpy.workflows.hashing import _encode
    return json.loads(_encode(m).decode('utf-8'))


def text_of(x):
    """The text that enters the key; a lone system is put into an otherwise empty model."""
    from pharmpy.model import CompartmentalSystem, Model, Statements
    from pharmpy.workflows.hashing import _encode
    if isinstance(x, CompartmentalSystem):
        x = Model.create('m', statements=Statements((x,)))
    return _encode(x)


def observe_pair(kind, a, b, keys=None):
    """keys: for models, ((key_a per process), (key_b per process), ds_a, ds_b)."""
    eq = safe_eq(a, b)
    text_eq = text_of(a) == text_of(b)
    if keys is None:
        key_eq, same_ds, stable = None, True, True
    else:
        ka, kb, dsa, dsb = keys
        stable = len(set(ka)) == 1 and len(set(kb)) == 1
        key_eq = ka[0] == kb[0]
        same_ds = dsa == dsb
    term = ('(mkPair ' + '\n  '.join([ex.obj(kind, a), ex.obj(kind, b), cobool(eq), ex.cbool(text_eq),
                                     cobool(key_eq), ex.cbool(same_ds), ex.cbool(stable)]) + ')')
    return term, {'kind': kind, 'eq': eq, 'text_eq': text_eq, 'key_eq': key_eq, 'same_ds': same_ds, 'stable': stable}


# ------------------------------------------------------------------ parts of a model
def parts_of(m):
    """(selector, kind, object) for every serialisable part of a model."""
    from pharmpy.model import Assignment, CompartmentalSystem
    from pharmpy.model.statements import Output
    out = [(['parameters'], 'parameters', m.parameters), (['rvs'], 'rvs', m.random_variables),
           (['statements'], 'statements', m.statements), (['steps'], 'steps', m.execution_steps),
           (['datainfo'], 'datainfo', m.datainfo)]
    for i, p in enumerate(m.parameters):
        out.append((['parameter', i], 'parameter', p))
    for i, d in enumerate(m.random_variables._dists):
        out.append((['dist', i], 'dist', d))
    for i, s in enumerate(m.statements):
        if isinstance(s, Assignment):
            out.append((['assignment', i], 'assignment', s))
        elif isinstance(s, CompartmentalSystem):
            out.append((['csys', i], 'csys', s))
            comps = [n for n in s._g.nodes if not isinstance(n, Output)]
            for j, c in enumerate(comps):
                out.append((['compartment', i, j], 'compartment', c))
                for k, dose in enumerate(c.doses):
                    out.append((['dose', i, j, k], 'dose', dose))
    for i, s in enumerate(m.execution_steps):
        out.append((['step', i], 'step', s))
    for i, c in enumerate(m.datainfo):
        out.append((['column', i], 'column', c))
    return out


def select_part(m, sel):
    for s, kind, x in parts_of(m):
        if s == list(sel):
            return kind, x
    raise KeyError(sel)


def build_case_object(spec):
    """spec: {'kind': ..} synthetic component, {'model': modelspec} whole model, or
    {'model': modelspec, 'part': selector}."""
    if 'model' in spec:
        m = gen.build_model(spec['model'])
        if 'part' in spec:
            return select_part(m, spec['part'])
        return 'model', m
    return spec['kind'], gen.build_component(spec)


# ------------------------------------------------------------------ generators
NAMES = ['CL', 'VC', 'KA', 'Q', 'VP1', 'MAT', 'TVCL', 'THETA_1', 'OMEGA_1_1', 'SIGMA_1_1', 'KÅ', 'x"y']
SYMS = ['CL', 'V', 'KA', 'Q', 'K12', 'K21', 'WGT', 'THETA_1', 'ETA_1', 'EPS_1', 'AMT', 't', 'A_CENTRAL(t)']
FLOATS = [0.0, 1.0, 0.1, 0.5, 2.5, 1e-12, 99999.0, 0.00469307, 1.5e10, -3.25, 1 / 3]


def rexpr(rng, depth=2):
    if depth == 0 or rng.random() < 0.3:
        if rng.random() < 0.3:
            return rng.choice(['1', '2', '0.5', '3/4', '1.5e-3', '-2'])
        return rng.choice(SYMS[:-1])
    k = rng.choice(['add', 'mul', 'div', 'pow', 'exp', 'log', 'pw', 'neg', 'sqrt', 'abs', 'fn'])
    a, b = rexpr(rng, depth - 1), rexpr(rng, depth - 1)
    if k == 'add':
        return f'({a} + {b})'
    if k == 'mul':
        return f'({a})*({b})'
    if k == 'div':
        return f'({a})/({b})'
    if k == 'pow':
        return f'({a})**{rng.choice(["2", "3", "(-1)", "(1/2)", "0.75"])}'
    if k == 'exp':
        return f'exp({a})'
    if k == 'log':
        return f'log({a})'
    if k == 'neg':
        return f'-({a})'
    if k == 'sqrt':
        return f'sqrt({a})'
    if k == 'abs':
        return f'Abs({a})'
    if k == 'fn':
        return rng.choice([f'floor({a})', f'Max({a}, {b})', f'gamma({a})', f'sign({a})'])
    op = rng.choice(['<', '<=', '>', '>=', 'Eq', 'Ne'])
    cond = f'{op}({a}, {b})' if op in ('Eq', 'Ne') else f'({a}) {op} ({b})'
    return f'Piecewise(({rexpr(rng, depth - 1)}, {cond}), ({rexpr(rng, depth - 1)}, True))'


def gen_parameter(rng, nan_ok=False):
    init = rng.choice(FLOATS)
    lo = rng.choice(['-inf', init - 1.0, init, init - 1e-9]) if rng.random() < 0.7 else '-inf'
    hi = rng.choice(['inf', init + 1.0, init, init + 1e10]) if rng.random() < 0.7 else 'inf'
    spec = {'kind': 'parameter', 'name': rng.choice(NAMES), 'init': init, 'lower': lo, 'upper': hi,
            'fix': rng.random() < 0.3}
    if rng.random() < 0.15:
        spec['raw'] = True
        spec['init'] = rng.choice([1, 0, 7])
        spec['lower'], spec['upper'] = rng.choice([(-5, 10), ('-inf', 'inf')])
    if nan_ok:
        spec['lower'] = 'nan'
        spec['raw'] = True       # Parameter.create refuses NaN bounds (caae827); the plain constructor does not
    return spec


def gen_dist(rng, i=0):
    level = rng.choice(['IIV', 'iov', 'RUV'])
    if rng.random() < 0.4:
        n = rng.choice([2, 2, 3])
        names = [f'ETA_{i}_{k}' for k in range(n)]
        var = [[f'OM_{i}_{max(r, c)}_{min(r, c)}' for c in range(n)] for r in range(n)]
        return {'kind': 'dist', 'names': names, 'level': level, 'mean': [0] * n, 'variance': var}
    return {'kind': 'dist', 'name': f'ETA_{i}', 'level': level, 'mean': rng.choice(['0', 'MU_1']),
            'variance': rng.choice([f'OMEGA_{i}', '1', f'OMEGA_{i}**2', '0.25'])}


def gen_dose(rng):
    admid = rng.choice([1, 1, 2, 3])
    amt = rng.choice(['AMT', 'DOSE', '2*AMT'])
    if rng.random() < 0.5:
        return {'kind': 'dose', 'class': 'Bolus', 'amount': amt, 'admid': admid}
    if rng.random() < 0.5:
        return {'kind': 'dose', 'class': 'Infusion', 'amount': amt, 'admid': admid, 'rate': rng.choice(['R1', 'RATE', '0.5'])}
    return {'kind': 'dose', 'class': 'Infusion', 'amount': amt, 'admid': admid, 'duration': rng.choice(['D1', 'TVD*2'])}


def gen_compartment(rng, name=None, dose_p=0.4):
    spec = {'kind': 'compartment', 'name': name or rng.choice(['CENTRAL', 'DEPOT', 'PERIPHERAL1', 'EFFECT', 'TRANSIT1'])}
    if rng.random() < dose_p:
        spec['doses'] = [gen_dose(rng) for _ in range(rng.choice([1, 1, 2]))]
        for i, d in enumerate(spec['doses']):
            d['admid'] = i + 1
    if rng.random() < 0.25:
        spec['lag_time'] = rng.choice(['ALAG', 'MDT/2'])
    if rng.random() < 0.25:
        spec['bioavailability'] = rng.choice(['F1', '0.5'])
    if rng.random() < 0.15:
        spec['input'] = rng.choice(['KIN', 'R0*2'])
    return spec


CNAMES = ['CENTRAL', 'DEPOT', 'PERIPHERAL1', 'PERIPHERAL2', 'EFFECT', 'TRANSIT1', 'METABOLITE', 'COMPLEX', 'TARGET']


def gen_csys(rng):
    n = rng.choice([1, 2, 2, 3, 3, 4, 5])
    names = rng.sample(CNAMES, n)
    ops = []
    comps = {}
    dosed = False
    for nm in names:
        c = gen_compartment(rng, nm, dose_p=0.45)
        dosed = dosed or bool(c.get('doses'))
        comps[nm] = c
    if not dosed and rng.random() < 0.9:
        comps[names[0]]['doses'] = [{'kind': 'dose', 'class': 'Bolus', 'amount': 'AMT', 'admid': 1}]
    for nm in names:
        ops.append(['add', comps[nm]])
    flows = []
    for a in names:
        for b in names + ['OUTPUT']:
            if a != b and rng.random() < (0.5 if b == 'OUTPUT' and not any(f[2] == 'OUTPUT' for f in flows) else 0.3):
                flows.append(['flow', a, b, rexpr(rng, 1)])
    if not any(f[2] == 'OUTPUT' for f in flows) and rng.random() < 0.9:
        flows.append(['flow', rng.choice(names), 'OUTPUT', 'CL/V'])
    rng.shuffle(flows)
    ops += flows
    # relabelling / removal steps, as the transformations do them
    pure = rng.random() < 0.4     # only remove_flow (and re-entering): a history the Coq model of the builder replays
    for _ in range(rng.choice([0, 0, 1, 2])):
        nm = rng.choice(names)
        r = 0.9 if pure else rng.random()
        if r < 0.35:
            ops.append(['set_lag', nm, rng.choice(['ALAG', '0'])])
        elif r < 0.6:
            ops.append(['set_bio', nm, rng.choice(['F1', '1'])])
        elif r < 0.8:
            ops.append(['set_dose', nm, gen_dose(rng)])
        else:
            fl = [f for f in flows if f[0] == 'flow']
            if fl:
                f = rng.choice(fl)
                ops.append(['remove_flow', f[1], f[2]])
                flows.remove(f)
                if rng.random() < 0.5:
                    ops.append(['flow', f[1], f[2], f[3]])
                    flows.append(f)
    return {'kind': 'csys', 'ops': ops, 't': rng.choice(['t', 't', 'TIME'])}


def permuted_csys(rng, spec):
    """The same system entered in another order (compartments and flows shuffled; relabelling steps
    kept after them)."""
    adds = [o for o in spec['ops'] if o[0] == 'add']
    rest = [o for o in spec['ops'] if o[0] != 'add']
    head = [o for o in rest if o[0] == 'flow']
    # only pure add/flow histories are permuted exactly
    if len(head) != len(rest):
        return None
    adds, head = list(adds), list(head)
    rng.shuffle(adds)
    rng.shuffle(head)
    return {'kind': 'csys', 'ops': adds + head, 't': spec['t']}


def gen_step(rng):
    if rng.random() < 0.2:
        return {'kind': 'step', 'class': 'sim', 'n': rng.choice([1, 10, 300]), 'seed': rng.choice([64206, 1, 1234]),
                'solver': rng.choice([None, 'LSODA']),
                'tool_options': rng.choice([{}, {'ONLYSIM': 1}, {'k': [1, 2]}])}
    spec = {'kind': 'step', 'class': 'est', 'method': rng.choice(['FO', 'FOCE', 'ITS', 'IMP', 'IMPMAP', 'SAEM', 'BAYES']),
            'interaction': rng.random() < 0.5, 'pum': rng.choice([None, 'SANDWICH', 'SMAT', 'RMAT', 'EFIM']),
            'evaluation': rng.random() < 0.2, 'maxeval': rng.choice([None, 9999, 1]), 'laplace': rng.random() < 0.2,
            'isample': rng.choice([None, 300]), 'niter': rng.choice([None, 10]), 'auto': rng.choice([None, True, False]),
            'keep': rng.choice([None, 50]),
            'residuals': rng.choice([[], ['CWRES'], ['RES', 'CWRES']]), 'predictions': rng.choice([[], ['IPRED'], ['PRED', 'CIPREDI']]),
            'solver': rng.choice([None, 'CVODES', 'LSODA']), 'rtol': rng.choice([None, 6]), 'atol': rng.choice([None, 6, 1e-12]),
            'tool_options': rng.choice([{}, {}, {'NITER': 5}, {'opt': 'x', 'n': 2.5}, {'l': [1, [2, 3]], 'd': {'a': None}}]),
            'ies': rng.random() < 0.2}
    if rng.random() < 0.2:
        spec['derivatives'] = rng.choice([[['ETA_1']], [['ETA_1'], ['EPS_1', 'ETA_1']], [['ETA_2', 'ETA_1']]])
    return spec


UNITS = ['1', 'mg', 'mg/L', 'kg', 'h', 'L/h', 'ug/ml', 'h**-1', 'kg*m']


def gen_column(rng, i=0):
    spec = {'kind': 'column', 'name': rng.choice(['ID', 'TIME', 'DV', 'WGT', 'SEX', 'AMT', 'OCC']) + str(i),
            'type': rng.choice(['unknown', 'covariate', 'dv', 'idv', 'dose']), 'unit': rng.choice(UNITS),
            'scale': rng.choice(['nominal', 'ordinal', 'interval', 'ratio']),
            'datatype': rng.choice(['float64', 'int32', 'str', 'nmtran-time']), 'drop': rng.random() < 0.2,
            'descriptor': rng.choice([None, None, 'age', 'body weight'])}
    r = rng.random()
    if r < 0.25:
        spec['categories'] = rng.choice([[0, 1], [1, 2, 3], ['a', 'b']])
    elif r < 0.4:
        spec['categories'] = {'1': 'male', '2': 'female'}
        spec['int_keys'] = rng.random() < 0.6
    return spec


def gen_component(rng):
    k = rng.choice(['parameter', 'parameters', 'dist', 'rvs', 'assignment', 'dose', 'compartment', 'csys', 'csys', 'csys',
                    'statements', 'step', 'steps', 'column', 'datainfo'])
    if k == 'parameter':
        return gen_parameter(rng)
    if k == 'parameters':
        items = [gen_parameter(rng) for _ in range(rng.choice([0, 1, 2, 4]))]
        for i, p in enumerate(items):
            p['name'] = f"{p['name']}{i}"
        return {'kind': k, 'items': items}
    if k == 'dist':
        return gen_dist(rng)
    if k == 'rvs':
        return {'kind': k, 'items': [gen_dist(rng, i) for i in range(rng.choice([0, 1, 2, 3]))]}
    if k == 'assignment':
        if rng.random() < 0.08:
            # parsed by symengine directly: keeps number*(sum) undistributed, as pharmpy's own transformations do
            return {'kind': k, 'symbol': 'Y', 'symengine': True,
                    'expression': rng.choice(['(A+B)/2', '2*(CL+V)', '-(A+B)', 'exp(3*(A+B))', 'X*(A+B)', '(A+B)**2/2'])}
        return {'kind': k, 'symbol': rng.choice(['CL', 'V', 'Y', 'S1', 'F']), 'expression': rexpr(rng, rng.choice([1, 2, 3]))}
    if k == 'dose':
        return gen_dose(rng)
    if k == 'compartment':
        return gen_compartment(rng)
    if k == 'csys':
        return gen_csys(rng)
    if k == 'statements':
        items = [{'kind': 'assignment', 'symbol': rng.choice(['CL', 'V', 'KA']), 'expression': rexpr(rng, 2)}
                 for _ in range(rng.choice([0, 1, 3]))]
        if rng.random() < 0.6:
            items.append(gen_csys(rng))
        items += [{'kind': 'assignment', 'symbol': rng.choice(['F', 'Y']), 'expression': rexpr(rng, 2)}
                  for _ in range(rng.choice([0, 1, 2]))]
        return {'kind': k, 'items': items}
    if k == 'step':
        return gen_step(rng)
    if k == 'steps':
        return {'kind': k, 'items': [gen_step(rng) for _ in range(rng.choice([0, 1, 2]))]}
    if k == 'column':
        return gen_column(rng)
    return {'kind': 'datainfo', 'items': [gen_column(rng, i) for i in range(rng.choice([0, 1, 3]))],
            'separator': rng.choice([',', r'\s+'])}


PHENO_ONLY = {'add_iov', 'add_covariate_effect', 'add_allometry', 'x_categories_dict'}
GEN_OPS = [o for o in gen.OPS if o not in ('x_param_int', 'x_dataset_cell', 'x_move_path', 'set_name', 'set_description')]


def gen_model_spec(rng, max_ops=3, hashable=False):
    # (the data file of the 'moxo' example is not shipped: that model cannot be given a key)
    base = rng.choice(['pheno', 'pheno', 'pheno', 'pheno_linear'] + ([] if hashable else ['moxo']))
    ops = []
    for _ in range(rng.choice(list(range(0, max_ops + 1)))):
        name = rng.choice(GEN_OPS)
        if name in PHENO_ONLY and base != 'pheno':
            continue
        ops.append([name, list(rng.choice(gen.OPS[name]))])
    return {'base': base, 'ops': ops}


def valid_model_spec(rng, max_ops=3, tries=20, hashable=False):
    for _ in range(tries):
        spec = gen_model_spec(rng, max_ops, hashable)
        try:
            gen.build_model(spec)
            return spec
        except Exception:
            continue
    return {'base': 'pheno', 'ops': []}


def gen_model_pair(rng):
    """Two model specs whose relation is interesting for the key."""
    a = valid_model_spec(rng, 2, hashable=True)
    r = rng.random()
    b = {'base': a['base'], 'ops': [list(o) for o in a['ops']]}
    why = 'identical'
    if r < 0.1:
        pass
    elif r < 0.25:
        b['ops'].append(rng.choice([['set_name', ['renamed']], ['set_description', ['some text']],
                                    ['x_move_path', ['/somewhere/else/data.csv']]]))
        why = 'renamed'
    elif r < 0.45:
        b['ops'] += rng.choice([[['add_lag_time', []], ['remove_lag_time', []]],
                                [['add_peripheral_compartment', []], ['remove_peripheral_compartment', []]],
                                [['x_reverse_nodes', []]],
                                [['set_zero_order_absorption', []], ['set_bolus_absorption', []]]])
        why = 'there-and-back'
    elif r < 0.49:
        a['ops'].append(['x_estimation_options', [{'NITER': 5, 'ISAMPLE': 20}]])
        b['ops'].append(['x_estimation_options', [{'ISAMPLE': 20, 'NITER': 5}]])
        why = 'tool-order'
    elif r < 0.53:
        a['ops'].append(['x_depvars', [['Y', 'Z']]])
        b['ops'].append(['x_depvars', [['Z', 'Y']]])
        why = 'depvar-order'
    elif r < 0.65 and len(b['ops']) >= 2:
        i = rng.randrange(len(b['ops']) - 1)
        b['ops'][i], b['ops'][i + 1] = b['ops'][i + 1], b['ops'][i]
        why = 'swapped-ops'
    elif r < 0.75:
        b['ops'].append(rng.choice([['x_dataset_cell', [0, 'DV', 1.0]], ['x_dataset_cell', [3, 'TIME', 0.25]]]))
        why = 'dataset-cell'
    else:
        name = rng.choice(['set_initial_estimates', 'fix_parameters', 'add_estimation_step', 'add_population_parameter',
                           'add_individual_parameter', 'set_proportional_error_model', 'add_predictions'])
        b['ops'].append([name, list(rng.choice(gen.OPS[name]))])
        why = 'content-change'
    for s in (a, b):
        try:
            gen.build_model(s)
        except Exception:
            return None
    return {'a': a, 'b': b, 'why': why}


# ------------------------------------------------------------------ results objects
def gen_results_value(rng, supported_only=False):
    kinds = ['plain', 'plain', 'frame', 'series', 'log', 'plainnest']
    if not supported_only:
        kinds += ['tuple', 'intkey', 'model', 'path', 'set', 'ndarray', 'npint']
    k = rng.choice(kinds)
    if k == 'plain':
        return {'kind': 'plain', 'value': rng.choice([None, True, 3, 1.5, -0.25, 'text', float('inf')])}
    if k == 'plainnest':
        return {'kind': 'plain', 'value': rng.choice([[1, 2.5, 'a'], {'k': [1, {'z': None}]}, [], {'a': 1, 'b': [True]}])}
    if k == 'frame':
        n = rng.choice([1, 2, 3])
        cols = rng.sample(['est', 'se', 'label', 'n'], rng.choice([1, 2, 3]))
        data = [[(rng.choice([0.5, 1.25, -3.0, 100.0]) if c in ('est', 'se') else ('row%d' % i if c == 'label' else i + 1))
                 for i in range(n)] for c in cols]
        spec = {'kind': 'frame', 'columns': cols, 'data': data}
        if rng.random() < 0.5:
            spec['index'] = ['P%d' % i for i in range(n)]
        return spec
    if k == 'series':
        n = rng.choice([1, 2, 4])
        return {'kind': 'series', 'data': [rng.choice([0.5, 2.0, -1.75]) for _ in range(n)],
                'index': ['THETA_%d' % i for i in range(n)], 'name': rng.choice(['estimates', 'values'])}
    if k == 'log':
        return {'kind': 'log', 'messages': rng.choice([[], ['first'], ['one', 'two']])}
    if k == 'tuple':
        return {'kind': 'tuple', 'value': [1, 'b']}
    if k == 'intkey':
        return {'kind': 'intkey', 'value': {'1': 'x'}}
    if k == 'path':
        return {'kind': 'path', 'value': '/tmp/results/run1'}
    if k in ('set', 'ndarray'):
        return {'kind': k, 'value': [1, 2]}
    if k == 'npint':
        return {'kind': 'npint', 'value': 3}
    return {'kind': k}


def gen_results_spec(rng):
    if rng.random() < 0.3:
        fields = {}
        if rng.random() < 0.8:
            fields['ofv'] = {'kind': 'plain', 'value': rng.choice([1.5, -220.25, 0.0])}
        if rng.random() < 0.8:
            fields['parameter_estimates'] = gen_results_value(rng, True) if rng.random() < 0.3 else \
                {'kind': 'series', 'data': [0.5, 2.0], 'index': ['POP_CL', 'POP_VC'], 'name': 'estimates'}
        if rng.random() < 0.5:
            fields['minimization_successful'] = {'kind': 'plain', 'value': rng.choice([True, False, None])}
        if rng.random() < 0.4:
            fields['log'] = {'kind': 'log', 'messages': ['note']}
        return {'results': {'class': 'modelfit', 'fields': fields}}
    names = rng.sample(['a', 'b', 'c', 'd'], rng.choice([1, 2, 3, 4]))
    sup = rng.random() < 0.7
    return {'results': {'class': 'probe', 'fields': {n: gen_results_value(rng, sup) for n in sorted(names)}}}


def values_equal(a, b):
    import pandas as pd
    from pharmpy.workflows import Log
    if isinstance(a, (pd.DataFrame, pd.Series)):
        return type(a) is type(b) and bool(a.equals(b))
    if isinstance(a, Log):
        return isinstance(b, Log) and a.to_dict() == b.to_dict()
    if type(a) is not type(b):
        return False
    if isinstance(a, float) and a != a:
        return b != b
    try:
        return bool(a == b)
    except Exception:
        return False


def observe_results(spec):
    from harness.props import c12_results
    from pharmpy.workflows.results import read_results
    r = c12_results.build_results(spec['results'])
    try:
        text = r.to_json()
    except TypeError:
        text = None
    back = None
    if text is not None:
        try:
            back = read_results(text)
        except Exception:
            back = None
    equal = (back is not None and type(back) is type(r) and list(vars(back)) == list(vars(r))
             and all(values_equal(v, getattr(back, k)) for k, v in vars(r).items()))
    info = {}
    jterm = 'None' if text is None else f'(Some {ex.pyv(json.loads(text))})'
    bterm = 'None'
    if back is not None:
        try:
            bterm = f'(Some {ex.results(back)})'
        except ex.Unconvertible as e:
            info['unconvertible_results'] = [str(e)]
    term = f'(mkR {ex.results(r)}\n  {jterm}\n  {bterm}\n  {ex.cbool(equal)})'
    info.update({'class': spec['results']['class'], 'equal': equal, 'encoded': text is not None, 'read': back is not None})
    return term, info


def run_results(ctx, specs, label):
    terms, kept, infos = [], [], []
    for spec in specs:
        try:
            term, info = observe_results(spec)
        except ex.Unconvertible:
            continue
        terms.append(term)
        kept.append(spec)
        infos.append(info)
    verdicts = sized_run(ctx, label, 'rcase', terms, 'rverdict') if terms else []
    return kept, verdicts, infos


# ------------------------------------------------------------------ datasets
def fhex(x):
    return float(x).hex()


def gen_frame(rng, big=False):
    ncol = rng.choice([1, 2, 2, 3])
    cols = rng.sample(['ID', 'TIME', 'DV', 'AMT', 'WGT', 'SEX'], ncol)
    dts = [rng.choice(['float64', 'float64', 'int64', 'object']) for _ in cols]
    n = rng.choice([95, 99, 100, 101, 102, 130]) if big else rng.choice([1, 2, 3, 5])
    def val(dt, i):
        if dt == 'float64':
            return fhex(rng.choice([0.0, 1.5, -2.25, 1e-3, float(i), float('nan')]) if rng.random() < 0.5 else float(i))
        if dt == 'int64':
            return rng.choice([0, 1, i, -7])
        return rng.choice(['a', 'b', 'xyz', str(i)])
    rows = [[val(dt, i) for dt in dts] for i in range(n)]
    index = {'range': [0, n, 1]} if rng.random() < 0.5 else {'labels': [rng.choice([1, 3]) * i + 5 for i in range(n)]}
    return {'columns': cols, 'dtypes': dts, 'rows': rows, 'index': index, 'how': 'dict'}


def gen_frame_pair(rng):
    a = gen_frame(rng, big=rng.random() < 0.35)
    b = json.loads(json.dumps(a))
    n = len(a['rows'])
    kinds = ['identical', 'records', 'attrs', 'columns-name', 'cell', 'rename', 'swap', 'dtype', 'index-kind',
             'index-label-front', 'index-label-middle', 'index-label-back', 'negzero', 'index-name']
    why = rng.choice(kinds)
    if why == 'records':
        b['how'] = 'records'
    elif why == 'attrs':
        b['attrs'] = True
    elif why == 'columns-name':
        b['columns_name'] = 'cols'
    elif why == 'cell':
        i, j = rng.randrange(n), rng.randrange(len(a['columns']))
        dt = a['dtypes'][j]
        b['rows'][i][j] = fhex(123.25) if dt == 'float64' else (99 if dt == 'int64' else 'changed')
    elif why == 'rename':
        b['columns'][0] = b['columns'][0] + 'X'
    elif why == 'swap':
        if len(a['columns']) < 2:
            return None
        b['columns'][0], b['columns'][1] = b['columns'][1], b['columns'][0]
        b['dtypes'][0], b['dtypes'][1] = b['dtypes'][1], b['dtypes'][0]
        for r in b['rows']:
            r[0], r[1] = r[1], r[0]
    elif why == 'dtype':
        js = [j for j, dt in enumerate(a['dtypes']) if dt == 'int64']
        if not js:
            return None
        j = js[0]
        b['dtypes'][j] = 'float64'
        for r in b['rows']:
            r[j] = fhex(r[j])
    elif why == 'index-kind':
        a['index'] = {'range': [0, n, 1]}
        b['index'] = {'labels': list(range(n))}
    elif why.startswith('index-label'):
        a['index'] = {'labels': list(range(n))}
        k = {'front': min(3, n - 1), 'middle': n // 2, 'back': max(0, n - 2)}[why.split('-')[-1]]
        b['index'] = {'labels': [100000 + v if i == k else v for i, v in enumerate(range(n))]}
    elif why == 'negzero':
        js = [j for j, dt in enumerate(a['dtypes']) if dt == 'float64']
        if not js:
            return None
        a['rows'][0][js[0]] = fhex(0.0)
        b['rows'][0][js[0]] = fhex(-0.0)
    elif why == 'index-name':
        a['index'] = {'labels': list(range(n))}
        b['index'] = {'labels': list(range(n))}
        b['index_name'] = 'rowid'
    return {'fa': a, 'fb': b, 'why': why}


def frame_hashes(ctx, frames, seeds):
    env_base = dict(os.environ)
    env_base['PYTHONPATH'] = f"{os.environ.get('VERIF_REPO', str(REPO))}/src:{VERIF}"

    def one(seed):
        env = dict(env_base)
        env['PYTHONHASHSEED'] = str(seed)
        p = subprocess.run([sys.executable, '-m', 'harness.props.c12_worker'], input=json.dumps({'frames': frames}),
                           text=True, stdout=subprocess.PIPE, stderr=subprocess.PIPE, env=env, cwd=str(VERIF), timeout=3000)
        if p.returncode != 0:
            raise RuntimeError(f'worker (PYTHONHASHSEED={seed}) failed: {p.stderr[-1500:]}')
        line = [l for l in p.stdout.splitlines() if l.startswith('{"hashseed"')][-1]
        return seed, json.loads(line)['results']
    out = {}
    with ThreadPoolExecutor(max_workers=max(1, min(len(seeds), 6))) as ex_:
        for seed, res in ex_.map(one, seeds):
            out[seed] = res
    return out


def run_frame_pairs(ctx, pairs, label, seeds):
    from pharmpy.workflows.hashing import DatasetHash
    flat = []
    for p in pairs:
        flat += [p['fa'], p['fb']]
    other = frame_hashes(ctx, flat, seeds) if seeds and flat else {}
    terms, infos, kept = [], [], []
    for i, p in enumerate(pairs):
        a, b = gen.build_frame(p['fa']), gen.build_frame(p['fb'])
        ha, hb = str(DatasetHash(a)), str(DatasetHash(b))
        has, hbs = {ha}, {hb}
        for sd in seeds:
            ra, rb = other[sd][2 * i], other[sd][2 * i + 1]
            has.add(ra.get('hash', 'error'))
            hbs.add(rb.get('hash', 'error'))
        try:
            eq = bool(a.equals(b))
            term = f"(mkD {ex.frame(a)}\n  {ex.frame(b)}\n  {ex.cbool(eq)} {ex.cbool(ha == hb)} {ex.cbool(len(has) == 1 and len(hbs) == 1)})"
        except ex.Unconvertible:
            continue
        terms.append(term)
        kept.append(p)
        infos.append({'why': p.get('why'), 'equals': eq, 'hash_eq': ha == hb, 'rows': len(p['fa']['rows'])})
    verdicts = sized_run(ctx, label, 'dcase', terms, 'dverdict') if terms else []
    return kept, verdicts, infos


# ------------------------------------------------------------------ keys in other processes
def worker_keys(ctx, specs, seeds):
    """Returns {seed: [result per spec]} computed by fresh interpreters."""
    env_base = dict(os.environ)
    env_base['PYTHONPATH'] = f"{os.environ.get('VERIF_REPO', str(REPO))}/src:{VERIF}"

    def one(seed):
        env = dict(env_base)
        env['PYTHONHASHSEED'] = str(seed)
        p = subprocess.run([sys.executable, '-m', 'harness.props.c12_worker'], input=json.dumps(specs), text=True,
                           stdout=subprocess.PIPE, stderr=subprocess.PIPE, env=env, cwd=str(VERIF), timeout=3000)
        if p.returncode != 0:
            raise RuntimeError(f'worker (PYTHONHASHSEED={seed}) failed: {p.stderr[-1500:]}')
        line = [l for l in p.stdout.splitlines() if l.startswith('{"hashseed"')][-1]
        return seed, json.loads(line)['results']

    out = {}
    with ThreadPoolExecutor(max_workers=max(1, min(len(seeds), 6))) as ex_:
        for seed, res in ex_.map(one, seeds):
            out[seed] = res
    return out


def local_key(m):
    from pharmpy.modeling import load_dataset
    from pharmpy.workflows.hashing import DatasetHash, ModelHash
    mh = ModelHash(m)
    ds = m.dataset if m.dataset is not None else load_dataset(m).dataset
    return str(mh), str(DatasetHash(ds))


# ------------------------------------------------------------------ classification
def classify(ctx, spec, tags, pair=False):
    tags = set(tags)
    corr = sorted(t for t in tags if t in CORR)
    oracle = sorted(t for t in tags if t in ORACLE)
    status = 'ok'

    def known(fid):
        nonlocal status
        if ctx.open_finding(fid):
            ctx.coverage.setdefault('known_hits', {}).setdefault(fid, 0)
            ctx.coverage['known_hits'][fid] += 1
            if status == 'ok':
                status = 'known'
            return True
        return False

    def excused_json():
        """tag 12: the faithful model explains it and the guard conjunct is false."""
        if tags & {2, 4, 6}:
            return False
        ok = False
        if 201 in tags:
            ok = known(F_DERIV) or ok
        if 203 in tags:
            ok = known(F_INTKEY) or ok
        return ok

    engine_failed = 17 in tags
    if engine_failed and ctx.open_finding(F_SREPR):
        # the engine hypothesis of every round-trip theorem (deserialize(serialize(e)) == e) fails on a leaf of this
        # object: its == answers are outside what the model (which identifies an expression with its srepr) can
        # predict; dictionaries and from_dict results (tags 1-4) are still compared
        corr = [t for t in corr if t not in (5, 6)]
    for t in oracle:
        fine = False
        if engine_failed and t in (11, 12, 16, 17, 19):
            fine = known(F_SREPR)
        elif 205 in tags and t in (11, 12, 16):
            # NaN bound: outside the property's domain (x != x already); counted, not judged
            ctx.coverage['nan_cases'] = ctx.coverage.get('nan_cases', 0) + 1
            fine = True
        elif t == 11:
            fine = 201 in tags and not (tags & {1, 3, 5}) and known(F_DERIV)
        elif t == 12:
            fine = excused_json()
        elif t in (16, 19):
            # the generic model code / file is the JSON way back of the whole model
            fine = 12 in tags and excused_json()
        elif t == 13:
            # equal models whose tool options were entered in another order
            fine = 210 in tags and not (tags & {5, 8, 9, 10}) and known(F_TOOLORDER)
        elif t == 42:
            if tags & {40, 41}:
                fine = False
            elif 221 in tags:
                fine = known(F_RESPATH)                 # a Path attribute: read_results raises
            elif 220 in tags and isinstance(spec, dict) and 'results' in spec and any(
                    v.get('kind') in ('tuple', 'intkey', 'model', 'set', 'ndarray', 'npint')
                    for v in spec['results']['fields'].values()):
                # the GENERATOR put in an attribute kind the format does not carry (an unsupported value that
                # comes from a class default instead is an alarm: C12-MODELFIT-GRADIENTS-DEFAULT, fixed 36ee5f2) (Model -> None, tuple -> list, int key -> text, or
                # a value json refuses): Refuted.results_unsupported_refuted; counted, not judged
                ctx.coverage['results_unsupported_kinds'] = ctx.coverage.get('results_unsupported_kinds', 0) + 1
                fine = True
        elif t == 23:
            if 213 in tags and 211 not in tags and 214 not in tags and not (tags & {30, 31}):
                # -0.0 vs 0.0: equals() says equal, the bit patterns (which is what is hashed) differ: counted, not judged
                ctx.coverage['negative_zero_cases'] = ctx.coverage.get('negative_zero_cases', 0) + 1
                fine = True
            else:
                # RangeIndex vs plain Index, or another index name: equals() ignores both, repr(df.index) shows them
                fine = (211 in tags or 214 in tags) and not (tags & {30, 31}) and known(F_INDEXREPR)
        elif t == 24:
            fine = 212 in tags and not (tags & {30, 31}) and known(F_INDEXREPR)
        elif t == 14:
            # `==` says different although t, compartments and flows agree (its dosing_compartments depend on the
            # graph order), the order-blind key says same
            fine = 209 in tags and not (tags & {5, 8, 9, 10}) and known(F_EQDOSING)
        if not fine:
            ctx.violation(TAGS[t], {'spec': spec, 'pair': pair, 'tags': sorted(tags), 'tag_meaning': TAGS[t]})
            status = 'violation'
    if corr and status != 'violation':
        ctx.broken.append('correspondence C12 model vs implementation: ' + ', '.join(TAGS[t] for t in corr)
                          + ' on ' + json.dumps(spec)[:600])
        ctx.coverage.setdefault('corr_disagreements', []).append({'spec': spec, 'tags': sorted(tags)})
        status = 'broken'
    return status


# ------------------------------------------------------------------ running
def sized_run(ctx, label, case_type, terms, verdict):
    """ctx.run_cases with shards of bounded text size (coqc's time grows faster than linearly with the file)."""
    out = [None] * len(terms)
    classes = [(2000, 120), (8000, 30), (40000, 6), (10 ** 9, 2)]
    lo = 0
    for k, (hi, shard) in enumerate(classes):
        idx = [i for i, t in enumerate(terms) if lo <= len(t) < hi]
        lo = hi
        if idx:
            res = ctx.run_cases(f'{label}-s{k}', IMPORTS, case_type, [terms[i] for i in idx], verdict, shard=shard,
                                prelude=PRELUDE)
            for i, v in zip(idx, res):
                out[i] = v
    return out


def run_single(ctx, specs, label, quiet=False, generic_every=1):
    terms, kept, infos = [], [], []
    skipped = {}
    nmodel = 0
    for spec in specs:
        try:
            kind, x = build_case_object(spec)
        except Exception as e:   # the generator asked for something the constructors refuse: not a case
            key = 'unbuildable: ' + type(e).__name__
            skipped[key] = skipped.get(key, 0) + 1
            continue
        try:
            wg = False
            if kind == 'model':
                wg = nmodel % generic_every == 0
                nmodel += 1
            term, info = observe(kind, x, ctx, with_generic=wg, spec=spec)
        except ex.Unconvertible as e:
            skipped[str(e)] = skipped.get(str(e), 0) + 1
            continue
        terms.append(term)
        kept.append(spec)
        infos.append(info)
    if skipped and not quiet:
        sk = ctx.coverage.setdefault('skipped_unconvertible', {})
        for k, v in skipped.items():
            sk[k] = sk.get(k, 0) + v
    if not quiet:
        ctx.log(f'{len(terms)} cases observed on the implementation ({sum(len(t) for t in terms) // 1000} kB of terms)')
    verdicts = sized_run(ctx, label, 'case', terms, 'verdict')
    return kept, verdicts, infos


def run_malformed(ctx, specs, label):
    terms, kept, infos = [], [], []
    for spec in specs:
        rng = __import__('random').Random(json.dumps(spec, sort_keys=True) + str(ctx.seed))
        try:
            kind, x = build_case_object(spec['of'])
            term, info = observe_malformed(kind, x, rng)
        except (ex.Unconvertible, TypeError):
            continue
        terms.append(term)
        kept.append(spec)
        infos.append(info)
    verdicts = sized_run(ctx, label, 'fcase', terms, 'fverdict') if terms else []
    return kept, verdicts, infos


def run_pairs(ctx, items, label):
    """items: list of (spec, kind, a, b, keys)"""
    terms, infos = [], []
    for spec, kind, a, b, keys in items:
        term, info = observe_pair(kind, a, b, keys)
        terms.append(term)
        infos.append(info)
    verdicts = sized_run(ctx, label, 'pcase', terms, 'pverdict') if terms else []
    return verdicts, infos


def model_pair_items(ctx, pairs, seeds):
    """Builds both models of every pair here (PYTHONHASHSEED of the check) and in fresh processes."""
    flat = []
    for p in pairs:
        flat += [p['a'], p['b']]
    other = worker_keys(ctx, flat, seeds) if seeds else {}
    items = []
    for i, p in enumerate(pairs):
        a, b = gen.build_model(p['a']), gen.build_model(p['b'])
        ka, dsa = local_key(a)
        kb, dsb = local_key(b)
        kas, kbs = [ka], [kb]
        for seed in seeds:
            ra, rb = other[seed][2 * i], other[seed][2 * i + 1]
            if 'error' in ra or 'error' in rb:
                raise RuntimeError(f'worker could not rebuild {p}: {ra} {rb}')
            kas.append(ra['key'])
            kbs.append(rb['key'])
            if ra['ds'] != dsa or rb['ds'] != dsb:
                kas.append('dataset-hash-differs-' + str(seed))
        items.append((p, 'model', a, b, (kas, kbs, dsa, dsb)))
    return items


def finding_probes(ctx):
    by_id = {}
    for f in ctx.findings:          # known_findings.json first, then the staging file: the later entry of an id wins
        by_id[f['id']] = f
    for f in by_id.values():
        if f.get('status') != 'open':
            continue
        w = f['witness']
        if 'results' in w:
            _, verdicts, _ = run_results(ctx, [w], 'finding-' + f['id'])
        elif 'fa' in w:
            _, verdicts, _ = run_frame_pairs(ctx, [w], 'finding-' + f['id'], [1])
        elif 'a' in w:
            seeds = [1]
            items = model_pair_items(ctx, [w], seeds) if 'base' in w['a'] else \
                [(w, w['a']['kind'], gen.build_component(w['a']), gen.build_component(w['b']), None)]
            verdicts, _ = run_pairs(ctx, items, 'finding-' + f['id'])
        else:
            _, verdicts, _ = run_single(ctx, [w], 'finding-' + f['id'], quiet=True)
        tags = set(verdicts[0]) if verdicts else set()
        need = set([f['expect_tag']] + f.get('expect_guard_tags', []))
        if need <= tags:
            ctx.known(f['id'])
        else:
            ctx.notes.append(f"finding_not_reproduced {f['id']} (tags {sorted(tags)})")


def run(ctx):
    ok = ctx.build_gate(['C12'])
    ctx.trusted += [
        'harness/props/c12_export.py (conversion of real pharmpy objects and of to_dict() values to Gallina terms; every Expr/Matrix/Unit leaf is exported as its srepr text)',
        'harness/props/c12.py generators and classification; harness/props/c12_gen.py (spec -> object); harness/props/c12_worker.py (keys in fresh interpreters)',
        'networkx DiGraph insertion-order semantics of add_node/add_edge/copy as modelled in C12/Model.v (validated by the correspondence, tags 1,3,7)',
    ]
    ctx.assumptions += [
        'sympy.srepr / parse_expr (Expr, Matrix, Unit serialisation) are engines: theorems assume deser (ser e) = Some e; checked on every leaf of every exported object (tag 17), not proved',
        'json.dumps / json.loads are an engine: theorems assume loads (dumps v) = Some (normalise v) and dumps (normalise v) = dumps v; normalise is compared with the real round trip on every case (tags 2, 18)',
        'sha256 is a Section variable H; separation theorems assume H collision free on the two compared inputs',
        'pandas hash_pandas_object / DataFrame.to_dict / DataFrame.from_dict are engines: the dataset enters the key as an opaque byte string, initial individual estimates are identified with their to_dict() value',
        'Python object identity shortcuts (`other is self`) and NaN parameter bounds are outside the model',
    ]
    ctx.coverage['source_sha'] = source_sha(
        'src/pharmpy/workflows/hashing.py', 'src/pharmpy/model/statements.py', 'src/pharmpy/model/parameters.py',
        'src/pharmpy/model/random_variables.py', 'src/pharmpy/model/distributions/symbolic.py',
        'src/pharmpy/model/execution_steps.py', 'src/pharmpy/model/datainfo.py', 'src/pharmpy/model/model.py',
        'src/pharmpy/model/external/generic/generic.py')
    if not ok:
        return
    quick = ctx.tier == 'quick'
    ctx.log('build gate done')
    finding_probes(ctx)
    ctx.log('finding probes done')

    # ---- regression corpus
    reg_single, reg_pairs = [], []
    for p in sorted((VERIF / 'regress' / 'C12').glob('*.json')):
        w = json.loads(p.read_text())
        if 'fa' in w or 'results' in w:
            continue            # dataset pairs and results objects are taken up below
        (reg_pairs if 'a' in w else reg_single).append(w)

    # ---- single objects
    rng = ctx.rng
    ncomp = 180 if quick else 2500
    nmodels = 10 if quick else 100
    specs = list(reg_single)
    specs += [gen_component(rng) for _ in range(ncomp)]
    specs += [gen_parameter(rng, nan_ok=True) for _ in range(3)]
    model_specs = [{'base': b, 'ops': []} for b in ('pheno', 'moxo', 'pheno_linear')]
    model_specs += [valid_model_spec(rng, 3) for _ in range(nmodels)]
    for ms in model_specs:
        specs.append({'model': ms})
    # parts of the reached models
    nparts = 0
    for ms in model_specs:
        m = gen.build_model(ms)
        sels = [s for s, _, _ in parts_of(m)]
        rng.shuffle(sels)
        for s in sels[: (8 if quick else 20)]:
            specs.append({'model': ms, 'part': s})
            nparts += 1
    ctx.log(f'{len(specs)} single-object specs generated')
    kept, verdicts, infos = run_single(ctx, specs, 'obj', generic_every=(2 if quick else 4))
    ctx.log(f'{len(verdicts)} single-object cases judged')
    stats = {'ok': 0, 'known': 0, 'violation': 0, 'broken': 0}
    for spec, tags in zip(kept, verdicts):
        stats[classify(ctx, spec, tags)] += 1

    # ---- malformed stream: from_dict on dictionaries with a key deleted / added
    # (single distributions / doses / steps are read back by their container's from_dict, which dispatches on
    #  'class': they are reached through rvs / compartment / steps objects here)
    mal_specs = [{'malformed': True, 'of': sp} for sp in kept
                 if 'model' not in sp and sp.get('kind') not in ('dist', 'dose', 'step')][: (120 if quick else 1000)]
    mal_specs += [{'malformed': True, 'of': {'model': ms}} for ms in model_specs[: (3 if quick else 20)]]
    mkept, mverdicts, minfos = run_malformed(ctx, mal_specs, 'malformed')
    ctx.log(f'{len(mverdicts)} malformed dictionaries judged')
    mstats = {'ok': 0, 'known': 0, 'violation': 0, 'broken': 0}
    for spec, tags in zip(mkept, mverdicts):
        mstats[classify(ctx, spec, tags)] += 1

    # ---- pairs: synthetic systems entered in two orders
    pair_items = []
    for w in reg_pairs:
        if 'base' not in w['a']:
            pair_items.append((w, w['a']['kind'], gen.build_component(w['a']), gen.build_component(w['b']), None))
    npairs = 60 if quick else 1000
    made = 0
    while made < npairs:
        a = gen_csys(rng)
        r = rng.random()
        if r < 0.6:
            b = permuted_csys(rng, a)
            if b is None:
                continue
        elif r < 0.8:
            b = gen_csys(rng)
        else:
            b = json.loads(json.dumps(a))
            fl = [o for o in b['ops'] if o[0] == 'flow']
            if not fl:
                continue
            rng.choice(fl)[3] = rexpr(rng, 1)
        try:
            oa, ob = gen.build_component(a), gen.build_component(b)
        except Exception:
            continue
        pair_items.append(({'a': a, 'b': b}, 'csys', oa, ob, None))
        made += 1
    # ---- pairs of models with keys from fresh interpreters
    nmp = 26 if quick else 150
    mpairs = [w for w in reg_pairs if 'base' in w['a']]
    while len(mpairs) < nmp + len([w for w in reg_pairs if 'base' in w['a']]):
        p = gen_model_pair(rng)
        if p is not None:
            mpairs.append(p)
    seeds = [1, 4242] if quick else [1, 4242, 7, 'random']
    ctx.log(f'{len(pair_items)} system pairs, {len(mpairs)} model pairs generated')
    pair_items += model_pair_items(ctx, mpairs, seeds)
    ctx.log('model keys computed in worker processes')
    pverdicts, pinfos = run_pairs(ctx, pair_items, 'pair')
    ctx.log(f'{len(pverdicts)} pairs judged')
    pstats = {'ok': 0, 'known': 0, 'violation': 0, 'broken': 0}
    for (spec, kind, _, _, _), tags in zip(pair_items, pverdicts):
        pstats[classify(ctx, spec, tags, pair=True)] += 1

    # ---- results objects through to_json / read_results
    rspecs = [w for w in (json.loads(p.read_text()) for p in sorted((VERIF / 'regress' / 'C12').glob('*.json'))) if 'results' in w]
    rspecs += [gen_results_spec(rng) for _ in range(50 if quick else 600)]
    rkept, rverdicts, rinfos = run_results(ctx, rspecs, 'results')
    ctx.log(f'{len(rverdicts)} results objects judged')
    rstats = {'ok': 0, 'known': 0, 'violation': 0, 'broken': 0}
    for spec, tags in zip(rkept, rverdicts):
        rstats[classify(ctx, spec, tags)] += 1

    # ---- pairs of datasets: what reaches DatasetHash
    fpairs = [w for w in (json.loads(p.read_text()) for p in sorted((VERIF / 'regress' / 'C12').glob('*.json'))) if 'fa' in w]
    nfp = 50 if quick else 600
    while len(fpairs) < nfp:
        fp = gen_frame_pair(rng)
        if fp is not None:
            fpairs.append(fp)
    fkept, fverdicts, finfos = run_frame_pairs(ctx, fpairs, 'frames', seeds[:2])
    ctx.log(f'{len(fverdicts)} dataset pairs judged')
    fstats = {'ok': 0, 'known': 0, 'violation': 0, 'broken': 0}
    for spec, tags in zip(fkept, fverdicts):
        fstats[classify(ctx, spec, tags, pair=True)] += 1

    # ---- evidence
    ctx.coverage['evaluations'] = len(verdicts) + len(pverdicts) + len(mverdicts) + len(fverdicts) + len(rverdicts)
    distinct = {json.dumps(s, sort_keys=True) for s, i in zip(kept, infos) if i['text_len'] > 60}
    distinct |= {json.dumps(s, sort_keys=True, default=str) for (s, _, _, _, _) in pair_items}
    ctx.coverage['distinct_nontrivial'] = len(distinct)
    ctx.coverage['rule'] = ('synthetic components from VERIF_SEED (parameters, distributions, doses, compartments, systems built by '
                            'random builder histories, statements, steps, columns, datainfos), whole models reached by <= 3 '
                            'transformations from the example models and randomly chosen parts of them; pairs of systems / models '
                            'related by permutation, there-and-back transformations, renaming, content changes; non-trivial = '
                            'dictionary text longer than 60 characters; distinct by spec text')
    ctx.coverage['case_status'] = {'single': stats, 'pairs': pstats, 'malformed': mstats, 'dataset_pairs': fstats, 'results': rstats}
    kinds = {}
    for i in infos:
        kinds[i['kind']] = kinds.get(i['kind'], 0) + 1
    ctx.coverage['input_distribution'] = {
        'single_by_kind': kinds, 'model_specs': len(model_specs), 'model_parts': nparts,
        'symbolic_leaves_checked': sum(i['leaves'] for i in infos),
        'direct_roundtrip_unequal': sum(1 for v in verdicts if 11 in v),
        'json_roundtrip_unequal': sum(1 for v in verdicts if 12 in v),
        'guard_derivatives_false': sum(1 for v in verdicts if 201 in v),
        'guard_intkey_false': sum(1 for v in verdicts if 203 in v),
        'nan': sum(1 for v in verdicts if 205 in v),
        'systems_with_modelled_history': sum(1 for i in infos if i.get('history_ops')),
        'modelled_histories_with_remove_flow': sum(1 for i in infos if i.get('history_removes')),
        'results_refused_by_exporter': sum(len(i.get('unconvertible_results', [])) for i in infos),
        'engine_contract_failed': sum(1 for v in verdicts if 17 in v),
        'graphs_not_output_first_or_illformed': sum(1 for v in verdicts if 206 in v),
        'pairs_by_kind': {k: sum(1 for i in pinfos if i['kind'] == k) for k in ('csys', 'model')},
        'pairs_equal': sum(1 for i in pinfos if i['eq'] is True), 'pairs_unequal': sum(1 for i in pinfos if i['eq'] is False),
        'pairs_eq_raises': sum(1 for i in pinfos if i['eq'] is None),
        'pairs_equal_but_text_differs': sum(1 for v in pverdicts if 13 in v),
        'pairs_eq_depends_on_dosing_order': sum(1 for v in pverdicts if 209 in v),
        'pairs_tool_option_order_differs': sum(1 for v in pverdicts if 210 in v),
        'model_pair_relations': {w: sum(1 for p in mpairs if p.get('why') == w) for w in sorted({p.get('why', 'regress') for p in mpairs})},
        'malformed_dicts': len(mverdicts), 'malformed_impl_raised': sum(1 for i in minfos if i['error']),
        'malformed_impl_accepted': sum(1 for i in minfos if not i['error']),
        'malformed_error_kinds': {k: sum(1 for i in minfos if i['error'] == k) for k in sorted({i['error'] for i in minfos if i['error']})},
        'results_objects': len(rverdicts), 'results_supported': sum(1 for v in rverdicts if 220 not in v),
        'results_read_back_equal': sum(1 for i in rinfos if i['equal']), 'results_to_json_raised': sum(1 for i in rinfos if not i['encoded']),
        'results_read_raised': sum(1 for i in rinfos if i['encoded'] and not i['read']),
        'dataset_pair_relations': {w: sum(1 for i in finfos if i['why'] == w) for w in sorted({str(i['why']) for i in finfos})},
        'dataset_pairs_equal_frames': sum(1 for i in finfos if i['equals']),
        'dataset_pairs_same_hash': sum(1 for i in finfos if i['hash_eq']),
        'dataset_pairs_index_elided': sum(1 for v in fverdicts if 212 in v),
        'processes_per_model_key': 1 + len(seeds), 'hashseeds': ['0 (check process)'] + [str(s) for s in seeds],
    }
    ctx.coverage['samples'] = ([{'spec': s, 'tags': v} for s, v in list(zip(kept, verdicts))[:3]]
                               + [{'pair': s, 'tags': v} for (s, _, _, _, _), v in list(zip(pair_items, pverdicts))[-3:]])


def replay(ctx, rep):
    spec = rep['spec']
    if 'results' in spec:
        _, verdicts, infos = run_results(ctx, [spec], 'replay')
        print('info', infos[0] if infos else None)
        tags = verdicts[0] if verdicts else []
        print('spec', json.dumps(spec)[:2000])
        print('tags', tags, [TAGS.get(t, t) for t in tags])
        return 1 if any(t in ORACLE or t in CORR for t in tags) else 0
    if 'fa' in spec:
        _, verdicts, infos = run_frame_pairs(ctx, [spec], 'replay', [1, 4242])
        print('info', infos[0] if infos else None)
        tags = verdicts[0] if verdicts else []
        print('spec', json.dumps(spec)[:2000])
        print('tags', tags, [TAGS.get(t, t) for t in tags])
        return 1 if any(t in ORACLE or t in CORR for t in tags) else 0
    if spec.get('malformed'):
        _, verdicts, infos = run_malformed(ctx, [spec], 'replay')
        print('info', infos[0] if infos else None)
        tags = verdicts[0] if verdicts else []
        print('spec', json.dumps(spec))
        print('tags', tags, [TAGS.get(t, t) for t in tags])
        return 1 if tags else 0
    if rep.get('pair') or 'a' in spec:
        if 'base' in spec['a']:
            items = model_pair_items(ctx, [spec], [1, 4242])
        else:
            items = [(spec, spec['a']['kind'], gen.build_component(spec['a']), gen.build_component(spec['b']), None)]
        verdicts, infos = run_pairs(ctx, items, 'replay')
        print('info', infos[0])
    else:
        _, verdicts, infos = run_single(ctx, [spec], 'replay', quiet=True)
        print('info', infos[0] if infos else None)
    tags = verdicts[0] if verdicts else []
    print('spec', json.dumps(spec))
    print('tags', tags, [TAGS.get(t, t) for t in tags])
    return 1 if any(t in ORACLE or t in CORR for t in tags) else 0
