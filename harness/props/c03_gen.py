"""C03 generator: NM-TRAN control-stream texts (grammar directed + layout mutations of seed models).
Every choice is drawn from the rng passed in (ctx.rng).  A spec is a JSON-able dict {'text': ...}."""
from pathlib import Path

from harness.lib.core import REPO

SEED_FILES = [
    'src/pharmpy/internals/example_models/pheno.mod',
    'src/pharmpy/internals/example_models/pheno_linear.mod',
    'src/pharmpy/internals/example_models/moxo.mod',
    'tests/testdata/nonmem/pheno_real.mod',
    'tests/testdata/nonmem/pheno_abbr.mod',
    'tests/testdata/nonmem/pheno_abbr_comments.mod',
    'tests/testdata/nonmem/pheno_block.mod',
    'tests/testdata/nonmem/pheno_etas.mod',
    'tests/testdata/nonmem/pheno_design.mod',
    'tests/testdata/nonmem/pheno_pd.mod',
    'tests/testdata/nonmem/pheno_multivariate_piecewise.mod',
    'tests/testdata/nonmem/minimal.mod',
    'tests/testdata/nonmem/pheno_nm750.mod',
    'tests/testdata/nonmem/pheno_clashing_symbols.mod',
]


def seed_texts():
    out = []
    for rel in SEED_FILES:
        p = REPO / rel
        if p.exists():
            try:
                out.append((rel, p.read_text()))
            except UnicodeDecodeError:
                out.append((rel, p.read_text(encoding='latin-1')))
    extra = sorted((REPO / 'tests/testdata/nonmem/models').glob('*.mod'))[:40]
    for p in extra:
        try:
            t = p.read_text(encoding='latin-1')
        except OSError:
            continue
        if len(t) < 6000:
            out.append((str(p.relative_to(REPO)), t))
    return out


# ------------------------------------------------------------------ record content generators
COLS = ['ID', 'TIME', 'AMT', 'WGT', 'APGR', 'DV', 'FA1', 'FA2', 'CMT', 'EVID', 'MDV', 'RATE', 'DOSE']
SYMS = ['CL', 'V', 'TVCL', 'TVV', 'KA', 'S1', 'W', 'IPRED', 'Y', 'F', 'WGT', 'APGR', 'K', 'Q', 'V2']
FUNCS = ['EXP', 'LOG', 'SQRT', 'ABS', 'DEXP', 'PEXP', 'LOG10', 'SIN', 'INT', 'GAMLN', 'PHI']
UNKNOWN = ['PRIOR', 'MIX', 'MSFI', 'DESIGN', 'LEVEL', 'BIND', 'ANNEAL', 'CHAIN', 'AES', 'AESINITIAL', 'TOL',
           'INFN', 'SCATTERPLOT', 'WARNINGS', 'NONPARAMETRIC', 'SUPER', 'OMEGAP', 'THETAP', 'CONTR', 'PHIS',
           'OLKJDF', 'RCOV', 'THETAI', 'TTDF', 'FOO_BAR', 'X', 'XY']
SYNONYMS = ['INFILE', 'INFI', 'INF', 'SUBS', 'SIML', 'SIMULATE', 'COVR', 'ESTM', 'PK', 'SUB', 'SUBR', 'EST',
            'ESTIMATE', 'ESTIM', 'COV', 'COVA', 'SIM', 'SIMUL', 'PRO', 'PROB', 'INP', 'INPU', 'DAT', 'THE', 'THET',
            'OME', 'OMEG', 'SIG', 'SIGM', 'TAB', 'TABL', 'ERR', 'ERRO', 'PRE', 'DES', 'ABB', 'ABBR', 'ABBREV',
            'MOD', 'MODE', 'SIZ', 'SIZE', 'ETA', 'ETAS', 'SUBROUTINE', 'ESTIMATION', 'COVARIANCE']


def num(rng):
    return rng.choice(['0', '1', '0.1', '.5', '1.5', '2', '0.0309626', '1E-3', '-0.5', '3.', '1e+2', '-1', '0.00469307',
                       '12', '-.99', '1.00916'])


def posnum(rng):
    return rng.choice(['0.1', '1', '.5', '1.5', '2', '0.0309626', '1E-3', '3.', '0.04', '12'])


def ws(rng, must=True):
    r = rng.random()
    if r < 0.7:
        return ' '
    if r < 0.8:
        return '\t'
    if r < 0.9:
        return '  '
    if r < 0.94:
        return ' \t '
    if r < 0.97 and not must:
        return ''
    return ' \x00' if rng.random() < 0.3 else '   '


def comment(rng):
    return rng.choice(['; POP_CL', ';', ';;; x', '; a $b', ';comment with = and ( stuff', '; TVCL = THETA(1)',
                       ';\t tab', '; $THETA looks like a record', ';& amp', '; "quoted"', '; ÅÄÖ'])


def nl(rng, crlf):
    return '\r\n' if crlf else '\n'


def expr(rng, d=2):
    if d == 0 or rng.random() < 0.3:
        r = rng.random()
        if r < 0.35:
            return rng.choice(SYMS)
        if r < 0.55:
            return f"THETA({rng.randint(1, 9)})"
        if r < 0.7:
            return f"ETA({rng.randint(1, 4)})"
        if r < 0.75:
            return f"EPS({rng.randint(1, 2)})"
        if r < 0.8:
            return f"A({rng.randint(1, 3)})"
        return rng.choice(['1', '2', '0.5', '1.0E-3', '3.', '100', '1D2', '.25'])
    k = rng.choice(['+', '-', '*', '/', '**', 'fn', 'par', 'neg', 'mod'])
    a, b = expr(rng, d - 1), expr(rng, d - 1)
    sp = rng.choice(['', '', ' ', '  '])
    if k in '+-*/' or k == '**':
        return f"{a}{sp}{k}{sp}{b}"
    if k == 'fn':
        return f"{rng.choice(FUNCS)}({a})"
    if k == 'par':
        return f"({a}{sp}+{sp}{b})"
    if k == 'neg':
        return f"-{a}" if not a.startswith('-') else a
    return f"MOD({a},{b})"


def cond(rng):
    op = rng.choice(['.GT.', '.LT.', '.EQ.', '.NE.', '.GE.', '.LE.', '>', '<', '==', '/=', '>=', '<='])
    c = f"{rng.choice(SYMS)}{op}{rng.choice(['0', '1', '5', 'THETA(2)', 'WGT'])}"
    if rng.random() < 0.25:
        c += rng.choice(['.AND.', '.OR.', ' .and. ']) + f"{rng.choice(SYMS)}.GT.{rng.randint(0, 9)}"
    return c


def code_lines(rng, depth=0):
    """A list of physical code lines (without line terminators)."""
    out = []
    for _ in range(rng.choice([0, 1, 2, 3, 4, 6, 9])):
        r = rng.random()
        if r < 0.55:
            lhs = rng.choice(SYMS + ['A_0(1)', 'DADT(1)', 'DADT(2)'])
            out.append(f"{lhs}{rng.choice([' = ', '=', ' =', '= ', '\t=\t'])}{expr(rng)}")
        elif r < 0.68:
            out.append(f"IF{rng.choice(['', ' '])}({cond(rng)}) {rng.choice(SYMS)} = {expr(rng, 1)}")
        elif r < 0.80 and depth < 2:
            out.append(f"IF ({cond(rng)}) THEN")
            out += ['  ' + x for x in code_lines(rng, depth + 1) if not x.startswith('"')] or [f"  {rng.choice(SYMS)} = 1"]
            if rng.random() < 0.4:
                out.append(rng.choice(['ELSE IF', 'ELSEIF']) + f" ({cond(rng)}) THEN")
                out.append(f"  {rng.choice(SYMS)} = {expr(rng, 1)}")
            if rng.random() < 0.5:
                out.append('ELSE')
                out.append(f"  {rng.choice(SYMS)} = {expr(rng, 1)}")
            out.append(rng.choice(['ENDIF', 'END IF', 'endif']))
        elif r < 0.86 and depth == 0:
            out.append(rng.choice(['"  FIRST', '" COMMON /PRCOMG/ IDUM1,IDUM2', '"! verbatim ; not a comment $x', '"',
                                   '"  WRITE(*,*) \'&\'']))
        elif r < 0.90:
            out.append(rng.choice(['', ' ', '\t']))
        elif r < 0.94:
            out.append(comment(rng))
        elif r < 0.96:
            out.append(rng.choice(['EXIT 1 2', 'EXIT', 'RETURN', 'CALL SIMETA(ETA)', 'IF (ICALL.EQ.4) EXIT 1 3']))
        elif r < 0.98 and depth == 0:
            out.append(f"DO WHILE ({cond(rng)})")
            out.append(f"  {rng.choice(SYMS)} = {expr(rng, 1)}")
            out.append(rng.choice(['ENDDO', 'END DO']))
        else:
            out.append(f"{rng.choice(SYMS)} = {expr(rng, 1)} {comment(rng)}")
    return out


def add_continuations(rng, lines):
    out = []
    for ln in lines:
        if ' ' in ln.strip() and not ln.lstrip().startswith(('"', ';')) and rng.random() < 0.15:
            idx = [i for i, c in enumerate(ln) if c == ' ' and i > 0]
            i = rng.choice(idx)
            out.append(ln[:i] + rng.choice([' &', '&', ' & ', ' &\t']))
            out.append(rng.choice(['', '   ']) + ln[i + 1:])
        else:
            out.append(ln)
    return out


def theta_item(rng):
    r = rng.random()
    fix = rng.choice(['FIX', 'FIXED', 'FIXE'])
    if r < 0.25:
        return num(rng) + (' ' + fix if rng.random() < 0.2 else '')
    if r < 0.5:
        return f"({rng.choice(['0', '-INF', '-1000000', '-1'])},{ws(rng, False) if rng.random() < .3 else ''}{posnum(rng)})"
    if r < 0.7:
        return f"(0, {posnum(rng)}, {rng.choice(['INF', '1000000', '100', '50'])})"
    if r < 0.78:
        return f"({posnum(rng)} {fix})"
    if r < 0.84:
        return f"(0,{posnum(rng)}) {fix}"
    if r < 0.9:
        return f"(0,,{rng.choice(['10', 'INF'])})"
    if r < 0.93:
        return f"(0,{posnum(rng)},10)x{rng.randint(2, 4)}"
    if r < 0.95:
        return f"(0,{posnum(rng)})x{rng.randint(2, 3)}"
    return f"({posnum(rng)})"


def rec_content(rng, kind, crlf):
    """Returns the text after the record name (starting with the separator) up to and including the final newline."""
    n = nl(rng, crlf)
    c = lambda p=0.25: (ws(rng) + comment(rng)) if rng.random() < p else ''
    if kind == 'PROBLEM':
        t = rng.choice([' PHENOBARB SIMPLE MODEL', ' run 1;not a comment?', '', ' ', '  DES model', '\ttabbed title',
                        ' title with $ sign', ' a=b (c) "d"'])
        out = t + n
        if rng.random() < 0.2:
            out += rng.choice(['', ' ']) + comment(rng) + n
        return out
    if kind == 'INPUT':
        items = []
        for col in rng.sample(COLS, rng.randint(1, 8)):
            r = rng.random()
            items.append(col if r < 0.7 else (f"{col}=DROP" if r < 0.8 else (f"XX={col}" if r < 0.9 else f"{col} = SKIP")))
        return ws(rng) + lines_join(rng, items, n, c)
    if kind == 'DATA':
        fn = rng.choice(['pheno.dta', "'my file.csv'", '"q.csv"', '../data/x.csv', 'file.csv', '*', 'C:\\d\\f.csv'])
        opts = []
        for _ in range(rng.randint(0, 3)):
            opts.append(rng.choice(['IGNORE=@', 'IGNORE=I', "IGNORE='#'", 'IGN=(ID.EQ.1)', 'IGNORE=(ID.EQ.1,WGT.GT.3)',
                                    'ACCEPT=(DV.LT.5)', 'NOWIDE', 'CHECKOUT', 'NULL=.', 'RECORDS=100', 'IGNORE @',
                                    'IGNORE (TIME>2)', 'REWIND', 'LRECL=300', '(2E6.0)', 'IGNORE=(APGR==1)',
                                    'ACCEPT=(ID.EQN.2)', 'IGNORE=(ID.NEN.2, DV/=0)', 'WIDE']))
        return ws(rng) + lines_join(rng, [fn] + opts, n, c)
    if kind == 'SUBROUTINES':
        items = [rng.choice(['ADVAN1', 'ADVAN2', 'ADVAN6', 'ADVAN13', 'ADVAN=ADVAN3'])]
        if rng.random() < 0.7:
            items.append(rng.choice(['TRANS2', 'TRANS1', 'TRANS=TRANS4', 'TOL=5', 'TOL 3']))
        return ws(rng) + lines_join(rng, items, n, c)
    if kind == 'MODEL':
        items = [rng.choice(['COMP=(CENTRAL)', 'COMP=(DEPOT DEFDOSE)', 'COMPARTMENT=(PERIPH)', 'NCOMPARTMENTS=2',
                             'COMP (A)', 'COMP=CENTRAL']) for _ in range(rng.randint(1, 3))]
        return ws(rng) + lines_join(rng, items, n, c)
    if kind == 'ABBREVIATED':
        items = [rng.choice(['REPLACE ETA_CL=ETA(1)', 'REPLACE THETA(CL)=THETA(1)', 'COMRES=2', 'COMSAV = 1', 'DERIV2=NO',
                             'DERIV2=NOCOMMON', 'PROTECT', 'NOFASTDER', 'CHECKMU', 'DES=COMPACT', 'DECLARE X(3),Y',
                             'DECLARE INTEGER I', 'FUNCTION BIVARIATE(VBI,5)', 'VECTOR VBI(5)', 'REPLACE K34="3,4"',
                             'DERIV1=NO', 'COMRES -1']) for _ in range(rng.randint(1, 3))]
        return ws(rng) + lines_join(rng, items, n, c)
    if kind in ('PK', 'PRED', 'ERROR', 'DES'):
        first = ''
        r = rng.random()
        if r < 0.08 and kind == 'ERROR':
            first = ' (ONLY OBSERVATIONS)'
        elif r < 0.12:
            first = ' ' + comment(rng)
        elif r < 0.18:
            first = rng.choice([' ', '\t', '  '])
        lines = code_lines(rng)
        if rng.random() < 0.3:
            lines = add_continuations(rng, lines)
        body = ''.join(ln + (c(0.08) if not ln.lstrip().startswith(('"', ';')) and ln.strip() and not ln.rstrip().endswith('&') else '') + n
                       for ln in lines)
        if rng.random() < 0.1 and not first:
            # first statement on the record line itself
            return ' ' + (body if body else n)
        return first + n + body
    if kind == 'THETA':
        items = [theta_item(rng) for _ in range(rng.randint(1, 4))]
        if rng.random() < 0.08:
            items.append(rng.choice(['ABORT', 'NOABORT', 'NOABORTFIRST']))
        return ws(rng) + lines_join(rng, items, n, lambda: c(0.5))
    if kind in ('OMEGA', 'SIGMA'):
        r = rng.random()
        if r < 0.45:
            items = []
            if rng.random() < 0.15:
                items.append(rng.choice(['DIAGONAL(2)', 'DIAG(3)']))
            for _ in range(rng.randint(1, 3)):
                q = rng.random()
                v = posnum(rng)
                items.append(v if q < 0.6 else (f"{v} FIX" if q < 0.75 else (f"({v} FIXED)" if q < 0.85 else (
                    f"({v})x{rng.randint(2, 3)}" if q < 0.92 else f"{v} SD"))))
            return ws(rng) + lines_join(rng, items, n, lambda: c(0.5))
        if r < 0.8:
            k = rng.randint(1, 3)
            head = rng.choice(['BLOCK', 'BLOC', 'BLO']) + f"({k})" + rng.choice(['', ' FIX', ' CORRELATION', ' SD', ' CHOLESKY',
                                                                                   ' VARIANCE COVARIANCE'])
            items = [head]
            for i in range(k):
                items.append(' '.join(posnum(rng) if j == i else rng.choice(['0.01', '0.001', '-0.002', '.02']) for j in range(i + 1)))
            if rng.random() < 0.15:
                items[-1] += ' FIX'
            return ws(rng) + lines_join(rng, items, n, lambda: c(0.4), force_newlines=rng.random() < 0.7)
        if r < 0.99:
            return ws(rng) + rng.choice(['BLOCK(2) SAME', 'BLOCK SAME', 'BLOCK(1) SAME(2)', 'BLOCK SAME(3)']) + c() + n
        return ws(rng) + f"BLOCK({rng.randint(2, 4)}) VALUES(0.1,0.01)" + rng.choice(['', ' FIX']) + c() + n
    if kind == 'ESTIMATION':
        items = rng.sample(['METHOD=1', 'METH=COND', 'INTER', 'INTERACTION', 'MAXEVAL=9999', 'MAXEVALS=0', 'PRINT=1',
                            'NOABORT', 'POSTHOC', 'METHOD=IMP', 'LAPLACE', 'SIGDIGITS=3', 'MSFO=msf1', 'NITER=100',
                            'ISAMPLE=300', 'AUTO=1', 'FILE=x.ext', 'METHOD=ZERO', 'NSIG=3', 'SIGL 9', 'LIKE',
                            'MCETA=(1,2)', 'RANMETHOD=3S2P', 'FORMAT=s1PE12.5', 'PRINT 5'], rng.randint(1, 5))
        return ws(rng) + lines_join(rng, items, n, c)
    if kind == 'COVARIANCE':
        items = rng.sample(['UNCONDITIONAL', 'PRINT=E', 'MATRIX=S', 'UNCOND', 'SIGL=10'], rng.randint(0, 3))
        return (ws(rng) + lines_join(rng, items, n, c)) if items else (rng.choice(['', ' ']) + n)
    if kind == 'TABLE':
        items = rng.sample(COLS + ['CIPREDI', 'PRED', 'RES', 'CWRES', 'ETA1', 'ETA(2)'], rng.randint(1, 6))
        items += rng.sample(['NOAPPEND', 'NOPRINT', 'ONEHEADER', 'FILE=pheno.tab', 'FILE = sdtab1', 'FORMAT=s1PE16.8',
                             'FIRSTONLY', 'NOTITLE', 'RFORMAT="(F8.0,4X)"', 'FILE=mytab ;c'], rng.randint(1, 4))
        return ws(rng) + lines_join(rng, items, n, c)
    if kind == 'SIMULATION':
        items = rng.sample(['(12345)', '(1)', 'SUBPROBLEMS=10', 'NSUB=2', 'ONLYSIM', 'ONLYSIMULATION', 'OMITTED',
                            'PREDICTION', 'NOPREDICTION', 'SUBPROBS 3'], rng.randint(1, 4))
        return ws(rng) + lines_join(rng, items, n, c)
    if kind == 'SIZES':
        items = rng.sample(['PD=-100', 'LTH=50', 'LVR=30', 'PC=40', 'LNP4=-1000', 'ISAMPLEMAX=250'], rng.randint(1, 3))
        return ws(rng) + lines_join(rng, items, n, c)
    if kind == 'ETAS':
        items = rng.sample(['FILE=run1.phi', 'FILE=x.phi', 'NUMBER=2', 'MSFO=a'], rng.randint(1, 2))
        return ws(rng) + lines_join(rng, items, n, c)
    # unknown record: arbitrary text lines, including things the grammars would refuse
    lines = [rng.choice([' NSPOP=2', ' NWPRI NTHETA=4, NETA=4', ' whatever (text) = here ; c', '', ' P(1)=THETA(3)',
                         ' \x00 odd & bytes \\ | ~', ' "quoted"', ' FIM=1 GROUPSIZE=32'])]
    for _ in range(rng.choice([0, 0, 1, 2])):
        lines.append(rng.choice(['P(2)=1.-THETA(5)', '  MIXNUM = 1', '; only a comment', '', 'x $y z', '& cont']))
    return ''.join(x + n for x in lines)


def lines_join(rng, items, n, c, force_newlines=False):
    """Join option-like items with spaces / newlines / comments."""
    out = ''
    for i, it in enumerate(items):
        out += it
        last = i == len(items) - 1
        if last:
            out += c() + n
        elif force_newlines or rng.random() < 0.15:
            out += c() + n + rng.choice(['', '', ' ', '\t', '      '])
        else:
            out += ws(rng)
    return out


KINDS = ['SIZES', 'PROBLEM', 'INPUT', 'DATA', 'SUBROUTINES', 'MODEL', 'ABBREVIATED', 'PK', 'PRED', 'DES', 'ERROR',
         'THETA', 'OMEGA', 'SIGMA', 'SIMULATION', 'ESTIMATION', 'COVARIANCE', 'ETAS', 'TABLE']


def raw_name(rng, kind):
    """A spelling of the record name: full, NONMEM's own longer forms, prefixes down to three letters, lower case."""
    alias = {'INPUT': ['INPUT', 'INPT'], 'SUBROUTINES': ['SUBROUTINES', 'SUBROUTINE', 'SUBS'],
             'ABBREVIATED': ['ABBREVIATED', 'ABBREV', 'ABBR'], 'ESTIMATION': ['ESTIMATION', 'ESTIMATE', 'ESTM', 'EST'],
             'COVARIANCE': ['COVARIANCE', 'COVR', 'COV'], 'SIMULATION': ['SIMULATION', 'SIMULATE', 'SIML', 'SIM'],
             'DATA': ['DATA', 'INFILE', 'INFI'], 'PROBLEM': ['PROBLEM', 'PROB']}
    r = rng.random()
    if r < 0.55:
        name = kind
    elif r < 0.75 and kind in alias:
        name = rng.choice(alias[kind])
    elif r < 0.99:
        k = rng.randint(3, len(kind)) if len(kind) >= 3 else len(kind)
        name = kind[:k]
    else:
        name = kind + rng.choice(['X', 'S', '_', '1'])      # not a prefix any more: unknown (or refused) record
    if rng.random() < 0.06:
        name = name.lower()
    elif rng.random() < 0.03:
        name = name.capitalize()
    return '$' + name


def gen_stream(rng):
    crlf = rng.random() < 0.12
    parts = []
    r = rng.random()
    if r < 0.15:
        parts.append(rng.choice([';; 1. Based on: 5\n', '\n', '  \n', '; comment before first record\n;; another\n',
                                 'free text\n', '\t', ';; x\r\n', 'Wed Oct  4 09:57:35 CEST 2017\n']))
    style = rng.random()
    if style < 0.6:
        kinds = ['PROBLEM', 'INPUT', 'DATA']
        if rng.random() < 0.15:
            kinds.insert(0, 'SIZES')
        if rng.random() < 0.6:
            kinds += ['SUBROUTINES'] + (['MODEL'] if rng.random() < 0.3 else []) + (['ABBREVIATED'] * rng.choice([0, 0, 1, 2]))
            kinds += ['PK'] + (['DES'] if rng.random() < 0.3 else []) + ['ERROR']
        else:
            kinds += ['ABBREVIATED'] * rng.choice([0, 0, 1]) + ['PRED']
        kinds += ['THETA'] * rng.randint(1, 3) + ['OMEGA'] * rng.randint(1, 3) + ['SIGMA'] * rng.randint(1, 2)
        kinds += rng.choice([['ESTIMATION'], ['ESTIMATION', 'COVARIANCE'], ['SIMULATION'], ['ESTIMATION', 'ESTIMATION'],
                             ['SIMULATION', 'ESTIMATION', 'COVARIANCE'], []])
        kinds += ['ETAS'] * (rng.random() < 0.08)
        kinds += ['TABLE'] * rng.choice([0, 1, 1, 2])
        for _ in range(rng.choice([0, 0, 0, 1, 2])):
            kinds.insert(rng.randint(1, len(kinds)), 'UNKNOWN')
    else:
        kinds = [rng.choice(KINDS + ['UNKNOWN']) for _ in range(rng.randint(1, 7))]
        if rng.random() < 0.7:
            kinds.insert(0, 'PROBLEM')
    if rng.random() < 0.08:
        kinds += ['PROBLEM'] + [rng.choice(KINDS) for _ in range(rng.randint(1, 3))]      # a second $PROBLEM
    for kind in kinds:
        lead = rng.choice(['', '', '', '', '', '', ' ', '  ', '\t', ' \t'])
        if kind == 'UNKNOWN':
            name = '$' + rng.choice(UNKNOWN)
            content = rec_content(rng, 'UNKNOWN', crlf)
        elif rng.random() < 0.01:
            name = '$' + rng.choice(SYNONYMS)          # spelling unrelated to the content that follows
            content = rec_content(rng, kind, crlf)
        else:
            name = raw_name(rng, kind)
            content = rec_content(rng, kind, crlf)
        if rng.random() < 0.12:
            content += rng.choice(['\n', '\n\n', ' \n', '\r\n' if crlf else '\n'])
        parts.append(lead + name + content)
    text = ''.join(parts)
    if rng.random() < 0.1:
        text = text.rstrip('\r\n')          # no final newline
    return text


LAYOUT_CHARS = [' ', '\t', '\x00', '\n', '\r\n', ';', '; c', '&', '&\n', ' &\n ', '$', '\r', '"', '=', '(', ')', ',',
                '\x0c', '\xa0', 'É']


def mutate(rng, text):
    """Layout mutation of a seed text: insert / replace layout characters at random places."""
    t = text
    for _ in range(rng.choice([1, 1, 2, 3])):
        r = rng.random()
        if not t:
            break
        if r < 0.5:
            i = rng.randint(0, len(t))
            t = t[:i] + rng.choice(LAYOUT_CHARS) + t[i:]
        elif r < 0.6:
            t = t.replace('\n', '\r\n')
        elif r < 0.7:
            t = t.replace(' ', rng.choice(['\t', '  ', ' \x00']), rng.randint(1, 5))
        elif r < 0.8:
            # comment at the end of a random line
            lines = t.split('\n')
            i = rng.randrange(len(lines))
            lines[i] += rng.choice([' ; c', ';', '\t;x'])
            t = '\n'.join(lines)
        elif r < 0.9:
            # indent a record
            lines = t.split('\n')
            idx = [i for i, ln in enumerate(lines) if ln.startswith('$')]
            if idx:
                i = rng.choice(idx)
                lines[i] = rng.choice([' ', '\t', '   ']) + lines[i]
            t = '\n'.join(lines)
        else:
            # abbreviate a record name
            lines = t.split('\n')
            idx = [i for i, ln in enumerate(lines) if ln.startswith('$') and len(ln.split()[0]) > 4]
            if idx:
                i = rng.choice(idx)
                w = lines[i].split()[0]
                k = rng.randint(4, len(w))
                lines[i] = w[:k] + lines[i][len(w):]
            t = '\n'.join(lines)
    return t


def gen_text(rng, seeds):
    r = rng.random()
    if r < 0.62 or not seeds:
        return gen_stream(rng)
    if r < 0.92:
        return mutate(rng, rng.choice(seeds)[1])
    return mutate(rng, gen_stream(rng))
