"""Fail-closed translator (Python ast -> Gallina) for two pieces of
/repo/src/pharmpy/model/external/nonmem/update.py:

  pk_param_conversion : the `elif from_advan == 'ADVANn'` chain of
        d[Expr.symbol('X')] = Expr.symbol('Y')   /   d.update({Expr.symbol('X'): Expr.symbol('Y'), ...})
     -> Definition pk_rename (from_advan advan trans : nat) : list (id * id)
  new_advan_trans     : the chain deciding `trans`
     -> Definition trans_choice (nonlin : bool) (oldtrans : option nat) (advan : nat) (symq : bool) : option nat

Everything that is not one of the shapes listed here makes the translator stop with TranslatorRefused.
The ADVAN5/ADVAN7 branches of pk_param_conversion (loops over compartment numbers, f-strings) are NOT
translated: they are recognised by their exact test and replaced by the empty table; this is stated in
the generated file.
"""
import ast
import hashlib
from pathlib import Path

RESERVED = ['K', 'KA', 'CL', 'V', 'Q', 'VSS', 'V1', 'V2', 'V3', 'V4', 'Q2', 'Q3', 'Q4',
            'K12', 'K21', 'K13', 'K31', 'K23', 'K32', 'K24', 'K42', 'ALPHA', 'BETA', 'GAMMA', 'AOB']


class TranslatorRefused(Exception):
    pass


def refuse(node, why):
    raise TranslatorRefused(f'TRANSLATOR-REFUSED line {getattr(node, "lineno", "?")}: {why}: {ast.unparse(node)[:120]}')


def code_of(s, node):
    if s.startswith('ADVAN') and s[5:].isdigit():
        return int(s[5:])
    if s.startswith('TRANS') and s[5:].isdigit():
        return int(s[5:])
    refuse(node, 'string is not ADVANn / TRANSn')


def test_term(t, variables):
    """boolean test over the given variable names -> Gallina bool term"""
    if isinstance(t, ast.BoolOp):
        op = ' && ' if isinstance(t.op, ast.And) else ' || '
        return '(' + op.join(test_term(v, variables) for v in t.values) + ')'
    if isinstance(t, ast.UnaryOp) and isinstance(t.op, ast.Not):
        return f'(negb {test_term(t.operand, variables)})'
    if isinstance(t, ast.Compare) and len(t.ops) == 1 and isinstance(t.left, ast.Name) and t.left.id in variables:
        v = variables[t.left.id]
        op, right = t.ops[0], t.comparators[0]
        if isinstance(op, (ast.Eq, ast.NotEq)) and isinstance(right, ast.Constant) and isinstance(right.value, str):
            r = v(code_of(right.value, t))
            return r if isinstance(op, ast.Eq) else f'(negb {r})'
        if isinstance(op, (ast.In, ast.NotIn)) and isinstance(right, (ast.List, ast.Tuple)):
            alts = []
            for e in right.elts:
                if not (isinstance(e, ast.Constant) and isinstance(e.value, str)):
                    refuse(t, 'non-literal member')
                alts.append(v(code_of(e.value, t)))
            r = '(' + ' || '.join(alts) + ')' if alts else 'false'
            return r if isinstance(op, ast.In) else f'(negb {r})'
        if isinstance(op, ast.Is) and isinstance(right, ast.Constant) and right.value is None:
            return v(None)
    refuse(t, 'unknown test shape')


def symbol_name(node):
    """Expr.symbol('X') -> 'X'"""
    if (isinstance(node, ast.Call) and isinstance(node.func, ast.Attribute) and node.func.attr == 'symbol'
            and isinstance(node.func.value, ast.Name) and node.func.value.id == 'Expr'
            and len(node.args) == 1 and not node.keywords
            and isinstance(node.args[0], ast.Constant) and isinstance(node.args[0].value, str)):
        name = node.args[0].value
        if name not in RESERVED:
            refuse(node, f'{name} is not in the reserved parameter-name table')
        return name
    refuse(node, 'not Expr.symbol(<literal>)')


def rename_body(stmts):
    """list of statements of a branch -> Gallina term of type list (id * id)"""
    parts = []
    for st in stmts:
        if (isinstance(st, ast.Assign) and len(st.targets) == 1 and isinstance(st.targets[0], ast.Subscript)
                and isinstance(st.targets[0].value, ast.Name) and st.targets[0].value.id == 'd'):
            parts.append(f"[(P_{symbol_name(st.targets[0].slice)}, P_{symbol_name(st.value)})]")
        elif (isinstance(st, ast.Expr) and isinstance(st.value, ast.Call) and isinstance(st.value.func, ast.Attribute)
              and st.value.func.attr == 'update' and isinstance(st.value.func.value, ast.Name)
              and st.value.func.value.id == 'd' and len(st.value.args) == 1 and isinstance(st.value.args[0], ast.Dict)):
            dct = st.value.args[0]
            items = [f'(P_{symbol_name(k)}, P_{symbol_name(v)})' for k, v in zip(dct.keys, dct.values)]
            parts.append('[' + '; '.join(items) + ']')
        elif isinstance(st, ast.If):
            parts.append(rename_if(st))
        else:
            refuse(st, 'unknown statement in a rename branch')
    return '(' + ' ++ '.join(parts) + ')' if parts else '[]'


RENAME_VARS = {
    'from_advan': lambda n: f'(from_advan =? {n})',
    'advan': lambda n: f'(advan =? {n})',
    'trans': lambda n: f'(trans =? {n})',
}


def rename_if(node):
    test = test_term(node.test, RENAME_VARS)
    then = rename_body(node.body)
    els = rename_body(node.orelse) if node.orelse else '[]'
    return f'(if {test} then {then} else {els})'


GENERAL_LINEAR_TEST = "from_advan == 'ADVAN5' or from_advan == 'ADVAN7'"


def translate_pk_param_conversion(fn):
    chain = None
    for st in fn.body:
        if isinstance(st, ast.If) and ast.unparse(st.test) == GENERAL_LINEAR_TEST:
            chain = st
    if chain is None:
        refuse(fn, 'the from_advan chain was not found')
    if len(chain.orelse) != 1 or not isinstance(chain.orelse[0], ast.If):
        refuse(chain, 'the ADVAN5/7 branch is not followed by an elif chain')
    # statements of the function besides the chain must be the known prologue / epilogue
    allowed_other = {
        "all_subs = model.internals.control_stream.get_records('SUBROUTINES')", 'subs = all_subs[0]',
        'from_advan = subs.advan', 'statements = model.statements', 'cs = get_odes(model)',
        'oldmap = model.internals.compartment_map', 'assert oldmap is not None', 'newmap = new_compartmental_map(cs)',
        "newmap['OUTPUT'] = len(newmap) + 1", 'oldmap = oldmap.copy()', "oldmap['OUTPUT'] = len(oldmap) + 1",
        'remap = create_compartment_remap(oldmap, newmap)', 'd = {}',
        'model = model.replace(statements=statements.subs(d))', 'return model',
    }
    for st in fn.body:
        if st is chain:
            continue
        if isinstance(st, ast.Expr) and isinstance(st.value, ast.Constant):
            continue       # docstring
        src = ast.unparse(st)
        if src in allowed_other:
            continue
        if isinstance(st, ast.If) and src.startswith('if not all_subs:'):
            continue
        if isinstance(st, ast.For) and src.startswith('for old, new in remap.items():'):
            continue       # S<old> -> S<new>, A(old) -> A(new): modelled by remap_consistent, not by this table
        if isinstance(st, ast.If) and ast.unparse(st.test) == "advan == 'ADVAN5' or advan == 'ADVAN7'":
            continue       # target is a general linear model: K -> K<n>0, not part of the table
        refuse(st, 'unexpected statement in pk_param_conversion')
    return rename_if(chain.orelse[0])


# ------------------------------------------------------------------ new_advan_trans
TRANS_VARS = {
    'oldtrans': lambda n: '(match oldtrans with None => true | Some _ => false end)' if n is None
    else f'(match oldtrans with Some o => o =? {n} | None => false end)',
    'advan': lambda n: f'(advan =? {n})',
    'nonlin': None,
}
SYMQ_TEST = 'num.is_symbol() and den.is_symbol()'
SYMQ_PROLOGUE = {'central = odes.central_compartment', 'elimination_rate = odes.get_flow(central, output)',
                 'num, den = elimination_rate.as_numer_denom()'}


def trans_value(node):
    if isinstance(node, ast.Constant) and node.value is None:
        return 'None'
    if isinstance(node, ast.Constant) and isinstance(node.value, str):
        return f'(Some {code_of(node.value, node)})'
    if isinstance(node, ast.Name) and node.id == 'oldtrans':
        return 'oldtrans'
    refuse(node, 'unknown value assigned to trans')


def trans_body(stmts):
    stmts = [s for s in stmts if ast.unparse(s) not in SYMQ_PROLOGUE]
    if len(stmts) != 1:
        refuse(stmts[0] if stmts else ast.Pass(), 'a branch of the trans chain must be one statement')
    st = stmts[0]
    if isinstance(st, ast.Assign) and len(st.targets) == 1 and isinstance(st.targets[0], ast.Name) and st.targets[0].id == 'trans':
        return trans_value(st.value)
    if isinstance(st, ast.If):
        return trans_if(st)
    refuse(st, 'unknown statement in the trans chain')


def trans_if(node):
    src = ast.unparse(node.test)
    if src == 'nonlin':
        test = 'nonlin'
    elif src == SYMQ_TEST:
        test = 'symq'
    else:
        test = test_term(node.test, {k: v for k, v in TRANS_VARS.items() if v})
    if not node.orelse:
        refuse(node, 'if without else in the trans chain')
    return f'(if {test} then {trans_body(node.body)} else {trans_body(node.orelse)})'


def translate_new_advan_trans(fn):
    chain = None
    for st in fn.body:
        if isinstance(st, ast.If) and ast.unparse(st.test) == 'nonlin':
            chain = st
    if chain is None:
        refuse(fn, 'the trans chain (if nonlin: ...) was not found')
    return trans_if(chain)


# ------------------------------------------------------------------ driver
def translate(update_py: Path, out: Path, source_text=None):
    text = source_text if source_text is not None else update_py.read_text()
    tree = ast.parse(text)
    fns = {n.name: n for n in tree.body if isinstance(n, ast.FunctionDef)}
    for need in ('pk_param_conversion', 'new_advan_trans'):
        if need not in fns:
            raise TranslatorRefused(f'TRANSLATOR-REFUSED function {need} not found')
    rename = translate_pk_param_conversion(fns['pk_param_conversion'])
    choice = translate_new_advan_trans(fns['new_advan_trans'])
    sha = hashlib.sha256((ast.unparse(fns['pk_param_conversion']) + ast.unparse(fns['new_advan_trans'])).encode()).hexdigest()[:16]
    out.parent.mkdir(parents=True, exist_ok=True)
    out.write_text(
        '(* GENERATED by harness/props/c02_translate.py from src/pharmpy/model/external/nonmem/update.py\n'
        f'   (pk_param_conversion, new_advan_trans; sha256 of their source: {sha}).  Do not edit.\n'
        '   ADVANn / TRANSn are the numbers n; parameter names are the reserved identifiers of C02/Spec.v.\n'
        '   The ADVAN5/ADVAN7 branches of pk_param_conversion are not part of this table. *)\n'
        'From Coq Require Import List Bool PArith Arith.\n'
        'From PV Require Import Base.Expr C02.Spec.\n'
        'Import ListNotations.\nLocal Open Scope nat_scope.\n\n'
        'Definition pk_rename (from_advan advan trans : nat) : list (id * id) :=\n  ' + rename + '.\n\n'
        'Definition trans_choice (nonlin : bool) (oldtrans : option nat) (advan : nat) (symq : bool) : option nat :=\n  '
        + choice + '.\n')
    return sha
