"""C02, stream hist — translation validation of whole generated control streams.

A spec is {'kind': 'hist', 'start': <corpus name>, 'steps': [[function name, {kwargs}], ...], 'seed': n}.
The history is applied to the start model with the real pharmpy.modeling functions (a step that raises
is dropped and counted: the property quantifies over sequences of transformations that each succeed),
model.code is read by the reference reader (c02_nm), the in-memory statements / compartmental system are
converted with NM names, and everything is compared inside Coq by C02.Check.verdict_hist.
"""
import random
import re
from fractions import Fraction as F

import sympy
from sympy.core.function import AppliedUndef

from harness.lib import coqterm as ct
from harness.lib import sym2coq as sc
from harness.lib.core import VERIF
from harness.props import c02_nm as nm

# identifiers fixed by coq/theories/C02/Spec.v
RESERVED = ['K', 'KA', 'CL', 'V', 'Q', 'VSS', 'V1', 'V2', 'V3', 'V4', 'Q2', 'Q3', 'Q4',
            'K12', 'K21', 'K13', 'K31', 'K23', 'K32', 'K24', 'K42', 'F', 'T', 'ALPHA', 'BETA', 'GAMMA', 'AOB']

CORPUS_DIR = VERIF / 'harness' / 'props' / 'c02_corpus'


class SkipCase(Exception):
    pass


class CodeUnreadable(Exception):
    pass


# ------------------------------------------------------------------ corpus
_cache = {}


def start_model(name):
    if name not in _cache:
        from pharmpy.modeling import load_example_model, read_model
        if name in ('pheno', 'moxo', 'pheno_linear'):
            _cache[name] = load_example_model(name)
        else:
            _cache[name] = read_model(CORPUS_DIR / f'{name}.mod')
    return _cache[name]


CORPUS = ['pheno', 'pheno', 'pheno', 'moxo', 'pheno_trans1', 'pheno_advan3', 'pheno_advan3_trans1', 'pheno_advan4_trans1',
          'pheno_cmt']

# histories that are always run first: every structural transition between the ADVANs on every parameterisation
_FO, _AP, _RP, _IA = 'set_first_order_absorption', 'add_peripheral_compartment', 'remove_peripheral_compartment', 'set_instantaneous_absorption'
_MM, _TR = 'set_michaelis_menten_elimination', 'set_transit_compartments'
DIRECTED = [
    ('pheno', [_FO]), ('pheno', [_AP]), ('pheno', [_FO, _AP]), ('pheno', [_AP, _FO]), ('pheno', [_AP, _AP]),
    ('pheno', [_FO, _AP, _AP]), ('pheno', [_AP, _AP, _FO]), ('pheno', [_AP, _RP]), ('pheno', [_FO, _IA]),
    ('pheno', [_FO, _AP, _AP, _RP]), ('pheno', [_AP, _AP, _RP]), ('pheno', [_FO, _AP, _IA]),
    ('pheno', ['add_lag_time']), ('pheno', [_FO, 'add_lag_time']), ('pheno', ['add_lag_time', _FO]),
    ('pheno', ['set_zero_order_absorption']), ('pheno', ['set_zero_order_absorption', _AP]),
    ('pheno', ['set_transit_compartments']), ('pheno', [_FO, 'add_bioavailability']),
    ('pheno', ['set_michaelis_menten_elimination']), ('pheno', ['set_michaelis_menten_elimination', 'set_first_order_elimination']),
    ('pheno', [['add_covariate_effect', {'parameter': 'CL', 'covariate': 'WGT', 'effect': 'piece_lin', 'operation': '*'}]]),
    ('pheno', [['add_covariate_effect', {'parameter': 'VC', 'covariate': 'APGR', 'effect': 'cat', 'operation': '*'}]]),
    ('pheno', [['add_covariate_effect', {'parameter': 'CL', 'covariate': 'WGT', 'effect': 'pow', 'operation': '*'}], _FO]),
    ('pheno', ['set_proportional_error_model']), ('pheno', ['set_combined_error_model', _AP]),
    ('pheno_trans1', [_FO]), ('pheno_trans1', [_FO, _IA]),
    ('pheno_advan3', [_FO]), ('pheno_advan3', [_AP]), ('pheno_advan3', [_RP]), ('pheno_advan3', [_FO, _AP]), ('pheno_advan3', [_FO, _RP]),
    ('pheno_advan3_trans1', [_FO]), ('pheno_advan3_trans1', [_RP]), ('pheno_advan3_trans1', [_FO, _IA]),
    ('pheno_advan4_trans1', [_IA]), ('pheno_advan4_trans1', [_RP]), ('pheno_advan4_trans1', ['add_lag_time']),
    ('moxo', [_AP]), ('moxo', [_IA]), ('moxo', ['remove_lag_time']), ('moxo', [_AP, _AP]), ('moxo', [_AP, _IA]),
    ('pheno_cmt', [_FO]), ('pheno_cmt', [_FO, _AP]),
    # $DES mode (nonlinear elimination) with TWO OR MORE successive shifts of the compartment numbers and a scale
    # parameter: S<n> / A(n) / the stored compartment map must follow after EVERY step, not only the first
    ('pheno', [_MM, _FO, _TR]), ('pheno', [_MM, _FO, _TR, _IA]), ('pheno', [_MM, _FO, ['set_transit_compartments', {'n': 1}], _TR]),
    ('pheno', [_MM, _FO, _TR, ['set_transit_compartments', {'n': 0}]]), ('pheno', ['set_mixed_mm_fo_elimination', _FO, _TR]),
    ('pheno', ['set_zero_order_elimination', _FO, ['set_transit_compartments', {'n': 3}]]),
    ('pheno', [_MM, _FO, _AP, _TR]), ('pheno', [_MM, _FO, 'add_lag_time', _TR]),
    ('pheno_advan3', [_MM, _FO, _TR]), ('pheno_trans1', [_MM, _FO, _TR]),
    ('moxo', [_MM, _TR, _IA]), ('moxo', [_MM, _TR, ['set_transit_compartments', {'n': 1}]]), ('moxo', [_MM, _IA, _FO]),
]


def directed_specs():
    out = []
    for k, (start, steps) in enumerate(DIRECTED):
        st = [[s, {} if s not in ('set_transit_compartments',) else {'n': 2}] if isinstance(s, str) else [s[0], dict(s[1])] for s in steps]
        out.append({'kind': 'hist', 'start': start, 'steps': st, 'seed': 1000 + k})
    return out

# (function name, generator of kwargs)
def _cov(rng, m):
    cols = [c for c in ('WGT', 'APGR', 'AGE', 'WT', 'CRCL', 'SEX') if c in m.datainfo.names]
    return rng.choice(cols) if cols else None


def _pkparam(rng, m):
    from pharmpy.modeling import get_individual_parameters
    try:
        ps = get_individual_parameters(m)
    except Exception:
        ps = []
    return rng.choice(ps) if ps else 'CL'


STEPS = {
    'set_first_order_absorption': lambda rng, m: {},
    'set_zero_order_absorption': lambda rng, m: {},
    'set_instantaneous_absorption': lambda rng, m: {},
    'set_seq_zo_fo_absorption': lambda rng, m: {},
    'add_peripheral_compartment': lambda rng, m: {},
    'remove_peripheral_compartment': lambda rng, m: {},
    'set_peripheral_compartments': lambda rng, m: {'n': rng.choice([0, 1, 2])},
    'set_transit_compartments': lambda rng, m: {'n': rng.choice([0, 1, 2, 3])},
    'add_lag_time': lambda rng, m: {},
    'remove_lag_time': lambda rng, m: {},
    'add_bioavailability': lambda rng, m: {},
    'remove_bioavailability': lambda rng, m: {},
    'set_michaelis_menten_elimination': lambda rng, m: {},
    'set_mixed_mm_fo_elimination': lambda rng, m: {},
    'set_zero_order_elimination': lambda rng, m: {},
    'set_first_order_elimination': lambda rng, m: {},
    'add_covariate_effect': lambda rng, m: {'parameter': _pkparam(rng, m), 'covariate': _cov(rng, m),
                                            'effect': rng.choice(['lin', 'cat', 'piece_lin', 'exp', 'pow']),
                                            'operation': rng.choice(['*', '*', '+'])},
    'add_allometry': lambda rng, m: {'allometric_variable': 'WGT' if 'WGT' in m.datainfo.names else 'WT'},
    'add_iiv': lambda rng, m: {'list_of_parameters': _pkparam(rng, m), 'expression': rng.choice(['exp', 'add', 'prop', 'log'])},
    'remove_iiv': lambda rng, m: {},
    'add_pk_iiv': lambda rng, m: {},
    'set_proportional_error_model': lambda rng, m: {},
    'set_additive_error_model': lambda rng, m: {},
    'set_combined_error_model': lambda rng, m: {},
    'set_iiv_on_ruv': lambda rng, m: {},
    'set_power_on_ruv': lambda rng, m: {},
    'add_effect_compartment': lambda rng, m: {'expr': rng.choice(['linear', 'emax'])},
    'add_metabolite': lambda rng, m: {},
    'add_individual_parameter': lambda rng, m: {'name': 'NEWP'},
    'add_time_after_dose': lambda rng, m: {},
    'set_ode_solver': lambda rng, m: {'solver': rng.choice(['LSODA', 'GL', 'GL_REAL'])},
}
STEP_WEIGHTS = {
    'set_first_order_absorption': 4, 'set_zero_order_absorption': 3, 'add_peripheral_compartment': 5,
    'remove_peripheral_compartment': 3, 'set_transit_compartments': 3, 'add_lag_time': 3, 'remove_lag_time': 2,
    'set_michaelis_menten_elimination': 2, 'add_covariate_effect': 4, 'add_iiv': 2, 'set_proportional_error_model': 2,
    'set_instantaneous_absorption': 2, 'set_peripheral_compartments': 2, 'set_seq_zo_fo_absorption': 2,
}


def gen_hist(rng, maxlen=4):
    start = rng.choice(CORPUS)
    n = rng.choice([1, 2, 2, 3, 3, 4][: 2 + maxlen])
    names = list(STEPS)
    weights = [STEP_WEIGHTS.get(k, 1) for k in names]
    steps = []
    for _ in range(n):
        steps.append([rng.choices(names, weights)[0], None])
    return {'kind': 'hist', 'start': start, 'steps': steps, 'seed': rng.randrange(10 ** 9)}


NONLIN = ['set_michaelis_menten_elimination', 'set_mixed_mm_fo_elimination', 'set_zero_order_elimination']
SHIFTERS = [['set_first_order_absorption', {}], ['set_instantaneous_absorption', {}], ['set_seq_zo_fo_absorption', {}],
            ['set_transit_compartments', {'n': 0}], ['set_transit_compartments', {'n': 1}], ['set_transit_compartments', {'n': 2}],
            ['set_transit_compartments', {'n': 3}], ['add_lag_time', {}], ['add_peripheral_compartment', {}]]


def gen_hist_des(rng):
    """$DES-mode family: a nonlinear elimination first, then 2-4 steps that move the compartment numbers"""
    start = rng.choice(['pheno', 'pheno', 'moxo', 'pheno_advan3', 'pheno_trans1', 'pheno_cmt'])
    steps = [[rng.choice(NONLIN), {}]]
    for _ in range(rng.choice([2, 2, 3, 4])):
        st = rng.choice(SHIFTERS)
        steps.append([st[0], dict(st[1])])
    return {'kind': 'hist', 'start': start, 'steps': steps, 'seed': rng.randrange(10 ** 9)}


def _cnames(m):
    cs = m.statements.ode_system
    return None if cs is None else list(cs.compartment_names)


def _s_index(m):
    """k of the S<k> in  F = A_<central>(t)/S<k>  (None when F is not scaled by exactly one S parameter)"""
    cs = m.statements.ode_system
    if cs is None:
        return None
    for s in m.statements.after_odes:
        if str(s.symbol) == 'F':
            ks = [x.name for x in sc.to_sympy(s.expression).free_symbols if re.fullmatch(r'S(\d+)', x.name)]
            return int(ks[0][1:]) if len(ks) == 1 else None
    return None


def apply_history(spec):
    """Returns (model, applied steps, failed steps).  kwargs that were not fixed in the spec are drawn from the
    spec's own seed, then stored back so that a replay is exact."""
    import pharmpy.modeling as pm
    rng = random.Random(spec['seed'])
    m = start_model(spec['start'])
    applied, failed = [], []
    spec['_names'] = [_cnames(m)]
    for st in spec['steps']:
        fname, kw = st[0], st[1]
        if kw is None:
            try:
                kw = STEPS[fname](rng, m)
            except Exception:
                kw = {}
            st[1] = kw
        if any(v is None for v in kw.values()):
            failed.append((fname, 'no-argument'))
            continue
        try:
            m2 = getattr(pm, fname)(m, **kw)
            m2 = m2.update_source()
            _ = m2.code
        except Exception as e:  # the transformation (or writing its result) refuses: not a supported step here
            failed.append((fname, type(e).__name__))
            continue
        m = m2
        applied.append(fname)
        spec['_names'].append(_cnames(m))
    return m, applied, failed


# ------------------------------------------------------------------ names
def name_map(model):
    """in-memory name -> NM-TRAN name, by position (the NM-TRAN rule)"""
    d = {}
    rvsyms = model.random_variables.free_symbols
    i = 0
    for p in model.parameters:
        if p.symbol not in rvsyms:
            i += 1
            d[p.name] = f'THETA({i})'
    for i, n in enumerate(model.random_variables.etas.names, start=1):
        d[n] = f'ETA({i})'
    for i, n in enumerate(model.random_variables.epsilons.names, start=1):
        d[n] = f'EPS({i})'
    return d


def to_nm_expr(e, nmap, amounts):
    """sympy expression with NM names: parameters by position, amounts A_X(t) -> A(n), t -> T, Float -> exact double"""
    e = sc.to_sympy(e)
    rep = {}
    for f in e.atoms(AppliedUndef):
        key = str(f.func)
        if key in amounts and len(f.args) == 1:
            if f.args[0].is_Symbol:
                rep[f] = sympy.Symbol(f'A({amounts[key]})')
            elif f.args[0] == 0:
                rep[f] = sympy.Symbol(f'A_0({amounts[key]})')
            else:
                raise sc.Unconvertible('amount at ' + str(f.args[0]))
        else:
            raise sc.Unconvertible('function ' + str(f))
    e = e.xreplace(rep)
    rep = {}
    for s in e.free_symbols:
        n = s.name
        if n in nmap:
            rep[s] = sympy.Symbol(nmap[n])
        elif n == 't':
            rep[s] = sympy.Symbol('T')
        elif re.fullmatch(r'ERR\((\d+)\)', n):
            rep[s] = sympy.Symbol(n.replace('ERR', 'EPS'))
        else:
            rep[s] = sympy.Symbol(n.upper())
    e = e.xreplace(rep)
    return e.xreplace({f: sympy.Rational(F(float(f))) for f in e.atoms(sympy.Float)})


def lhs_name(sym, nmap, amounts):
    s = sc.to_sympy(sym)
    if isinstance(s, AppliedUndef):
        key = str(s.func)
        if key in amounts and s.args[0] == 0:
            return f'A_0({amounts[key]})'
        raise sc.Unconvertible('lhs ' + str(s))
    return nmap.get(s.name, s.name.upper())


def ir_part(model, names):
    """(before terms, after terms, fexpr term|None, flows, ode, cmp, cmp_err, info) of a model, NM names"""
    from pharmpy.model import Assignment, Bolus, Infusion, output
    st = model.statements
    cs = st.ode_system
    nmap = name_map(model)
    amounts = {}
    comp_no = {}
    if cs is not None:
        for i, cn in enumerate(cs.compartment_names, start=1):
            comp_no[cn] = i
            amounts[str(sc.to_sympy(cs.find_compartment(cn).amount).func)] = i

    def conv(e):
        return sc._expr(to_nm_expr(e, nmap, amounts), names)

    def stmts_terms(stmts, skip_f):
        out, lhs = [], []
        fexpr = None
        for s in stmts:
            if not isinstance(s, Assignment):
                raise sc.Unconvertible('statement ' + type(s).__name__)
            x = lhs_name(s.symbol, nmap, amounts)
            if skip_f and x == 'F':
                fexpr = s.expression
                continue
            out.append(f'(Assign {names.p(x)} {conv(s.expression)})')
            if x not in lhs:
                lhs.append(x)
        return out, lhs, fexpr

    if cs is None:
        before, cmp_b, _ = stmts_terms(list(st), False)
        after, cmp_a, fexpr = [], [], None
    else:
        before, cmp_b, _ = stmts_terms(list(st.before_odes), False)
        after, cmp_a, fexpr = stmts_terms(list(st.after_odes), True)
    info = {'ncomp': 0, 'comp_names': [], 'index': [], 'dose_no': None, 'central_no': None}
    flows, ode = [], []
    if cs is not None:
        comps = [cs.find_compartment(cn) for cn in cs.compartment_names]
        info['ncomp'] = len(comps)
        info['comp_names'] = list(cs.compartment_names)
        for c1 in comps:
            for c2 in comps + [output]:
                if c1 is c2:
                    continue
                rate = cs.get_flow(c1, c2)
                if rate != 0:
                    j = 0 if c2 is output else comp_no[c2.name]
                    flows.append((comp_no[c1.name], j, conv(rate)))
        for i, eq in enumerate(cs.eqs, start=1):
            rhs = sc.to_sympy(eq.rhs)
            rhs = rhs.replace(sympy.Piecewise, lambda *a: sympy.Integer(0))   # infusions are PREDPP's job
            ode.append((f'DADT({i})', conv(rhs)))
        dosing = cs.dosing_compartments
        info['dose_no'] = comp_no[dosing[0].name] if dosing else None
        info['n_dosing'] = len(dosing)
        info['central_no'] = comp_no[cs.central_compartment.name]
        for dc in dosing:
            n = comp_no[dc.name]
            lag = sc.to_sympy(dc.lag_time)
            if lag != 0:
                mm = re.fullmatch(r'ALAG(\d+)', str(lag))
                info['index'].append((1, int(mm.group(1)) if mm else 0, n))
            bio = sc.to_sympy(dc.bioavailability)
            if bio != 1:
                mm = re.fullmatch(r'F(\d+)', str(bio))
                info['index'].append((2, int(mm.group(1)) if mm else 0, n))
            for dose in dc.doses:
                if isinstance(dose, Infusion):
                    par = dose.duration if dose.duration is not None else dose.rate
                    mm = re.fullmatch(r'[DR](\d+)', str(par))
                    info['index'].append((3, int(mm.group(1)) if mm else 0, n))
        if fexpr is not None:
            fe = sc.to_sympy(fexpr)
            ams = [f for f in fe.atoms(AppliedUndef)]
            scales = [s for s in fe.free_symbols if re.fullmatch(r'S(\d+)', s.name)]
            if len(ams) == 1 and str(ams[0].func) in amounts:
                info['f_amount_no'] = amounts[str(ams[0].func)]
                if len(scales) == 1:
                    info['index'].append((4, int(scales[0].name[1:]), info['f_amount_no']))
    fterm = None if fexpr is None else conv(fexpr)
    dvs = dict(model.dependent_variables)
    if len(dvs) > 1:
        # NM-TRAN has one prediction Y: "Y is dv_k on records with DVID = k" is what several DVs mean
        try:
            dvid = model.datainfo.typeix['dvid'][0].name
        except Exception:
            dvid = 'DVID'
        pw = sympy.Piecewise(*[(sc.to_sympy(dv), sympy.Eq(sympy.Symbol(dvid), k)) for dv, k in dvs.items()])
        (after if cs is not None else before).append(f"(Assign {names.p('Y')} {conv(pw)})")
        info['dvids'] = (dvid.upper(), [int(k) for k in dvs.values()])
        tgt = cmp_a if cs is not None else cmp_b
        if 'Y' not in tgt:
            tgt.append('Y')
    return before, after, fterm, flows, ode, cmp_b, cmp_a, info, nmap


# ------------------------------------------------------------------ the generated code
def nm_part(code):
    recs = nm.split_records(code)
    abbr = nm.abbr_replace_map(recs)
    text = {'PK': '', 'PRED': '', 'ERROR': '', 'DES': ''}
    sub, mod = '', ''
    for n, t in recs:
        k = nm.record_kind(n)
        if k in text:
            text[k] += t
        elif k == 'SUBROUTINES':
            sub += ' ' + t
        elif k == 'MODEL':
            mod += ' ' + t
    out = {}
    try:
        for k in text:
            out[k] = nm.tokens(text[k], abbr)          # tokens only: the code is read inside Coq (C02.Read)
    except nm.Unsupported as e:
        raise SkipCase('unsupported code: ' + str(e)[:30])
    except nm.ParseError as e:
        raise CodeUnreadable(str(e))
    m = re.search(r'ADVAN\s*=?\s*(\d+)', sub, re.I)
    advan = int(m.group(1)) if m else 0
    m = re.search(r'TRANS\s*=?\s*(\d+)', sub, re.I)
    trans = int(m.group(1)) if m else (1 if advan else 0)
    comps = []
    for mm in re.finditer(r'COMP(?:ARTMENT|ARTMEN|ARTME|ARTM|ART|AR|A)?\s*=?\s*\(([^)]*)\)', mod, re.I):
        words = mm.group(1).replace(',', ' ').split()
        attrs = {'INITIALOFF', 'NOOFF', 'NODOSE', 'EQUILIBRIUM', 'EXCLUDE', 'DEFOBSERVATION', 'DEFOBS', 'DEFDOSE'}
        nm_ = [w for w in words if w.upper() not in attrs]
        comps.append((nm_[0].upper() if nm_ else f'COMP{len(comps) + 1}', {w.upper() for w in words if w.upper() in attrs}))
    return advan, trans, out, comps


SPECIFIC = {1: (1, 1, 1), 2: (2, 1, 2), 3: (2, 1, 1), 4: (3, 1, 2), 10: (1, 1, 1), 11: (3, 1, 1), 12: (4, 1, 2)}
#            advan: (ncomp, default dose, default observation)


def nm_defaults(advan, comps):
    """(ncomp, default dose compartment, default observation compartment) by NONMEM's rules"""
    if advan in SPECIFIC:
        return SPECIFIC[advan]
    if not comps:
        return (0, 0, 0)
    names = [c[0] for c in comps]
    dd = next((i for i, c in enumerate(comps, 1) if 'DEFDOSE' in c[1]), None)
    if dd is None:
        dd = next((i for i, c in enumerate(comps, 1) if c[0] == 'DEPOT' and 'NODOSE' not in c[1]), None)
    if dd is None:
        dd = next((i for i, c in enumerate(comps, 1) if 'NODOSE' not in c[1]), 1)
    do = next((i for i, c in enumerate(comps, 1) if c[1] & {'DEFOBSERVATION', 'DEFOBS'}), None)
    if do is None:
        do = next((i for i, n in enumerate(names, 1) if n == 'CENTRAL'), 1)
    return (len(comps), dd, do)


# ------------------------------------------------------------------ parameters as terms
def params_term(model):
    """THETAs in THETA order as (init, lower, upper, fix); then per distribution a shape entry
    (number of variables, level code) followed by the lower triangle of its covariance as (init, fix)."""
    def oq(x):
        x = float(x)
        if x in (float('inf'), float('-inf')) or abs(x) >= 1e6:
            return 'None'
        return f'(Some {ct.q(F(x))})'
    out = []
    rvsyms = model.random_variables.free_symbols
    pars = {p.name: p for p in model.parameters}
    for p in model.parameters:
        if p.symbol not in rvsyms:
            out.append(ct.tup(ct.q(F(float(p.init))), oq(p.lower), oq(p.upper), ct.boolean(bool(p.fix))))
    levels = {'IIV': 1, 'IOV': 2, 'RUV': 3}
    for dist in list(model.random_variables.etas) + list(model.random_variables.epsilons):
        n = len(dist.names)
        out.append(ct.tup(ct.q(F(n)), f'(Some {ct.q(F(levels.get(str(dist.level).upper(), 9)))})', 'None', 'false'))
        var = sc.to_sympy(dist.variance)
        entries = [var] if n == 1 else [var[i, j] for i in range(n) for j in range(i + 1)]
        for e in entries:
            if e.is_Symbol and e.name in pars:
                q = pars[e.name]
                out.append(ct.tup(ct.q(F(float(q.init))), 'None', 'None', ct.boolean(bool(q.fix))))
            elif e.is_number:
                out.append(ct.tup(ct.q(F(float(e))), 'None', 'None', 'true'))
            else:
                raise sc.Unconvertible('covariance entry ' + str(e))
    return ct.lst(out)


# ------------------------------------------------------------------ one case
def observe_hist(spec, perturb=None, mutate_code=None):
    from pharmpy.modeling import read_model_from_string
    m, applied, failed = apply_history(spec)
    info = {'applied': applied, 'failed': failed, 'start': spec['start']}
    code = m.code
    if mutate_code:
        code = mutate_code(code)
    info['code'] = code
    advan, trans, nmcode, comps = nm_part(code)
    info['advan'], info['trans'] = advan, trans
    names = ct.Names()
    for r in RESERVED:
        names.get(r)
    before, after, fterm, flows, ode, cmp_b, cmp_a, irinfo, nmap = ir_part(m, names)
    pk = nmcode['PK'] + nmcode['PRED']
    des, err = nmcode['DES'], nmcode['ERROR']
    if perturb:
        pk, des, err, flows = perturb(pk, des, err, flows)
    ncomp, defdose, defobs = nm_defaults(advan, comps)
    index = list(irinfo['index'])
    if irinfo['ncomp']:
        if ncomp:
            index.append((9, irinfo['ncomp'], ncomp))                       # number of compartments
        if 'f_amount_no' in irinfo:
            index.append((5, irinfo['f_amount_no'], defobs))                 # F reads the NM observation compartment
        has_cmt = 'CMT' in m.datainfo.names and not m.datainfo['CMT'].drop
        if not has_cmt and irinfo['dose_no'] is not None:
            index.append((7, irinfo['dose_no'], defdose))                    # doses without CMT go to the default dose cmt
        if has_cmt and irinfo['dose_no'] is not None and irinfo.get('n_dosing') == 1:
            try:
                ds = m.dataset
                dosecol = m.datainfo.typeix['dose'][0].name
                vals = sorted({int(v) for v in ds.loc[ds[dosecol] != 0, 'CMT'].unique()})
            except Exception:
                vals = []
            for v in vals:
                index.append((10, v, irinfo['dose_no']))
                index.append((11, v, irinfo['central_no']))
        if advan not in SPECIFIC:
            for i, (cn, _) in enumerate(comps, start=1):
                index.append((6, (irinfo['comp_names'].index(cn) + 1) if cn in irinfo['comp_names'] else 0, i))
    kparams = []
    stale_k = []
    if advan in (5, 7):
        for x in nm.assigned(pk):
            mm = re.fullmatch(r'K(\d+)T(\d+)', x) or re.fullmatch(r'K(\d)(\d)', x)
            if mm:
                i, j = int(mm.group(1)), int(mm.group(2))
                if not (1 <= i <= ncomp and 0 <= j <= ncomp + 1):
                    # no such compartment in $MODEL: to PREDPP this is not a rate constant but an ordinary variable
                    # (pharmpy leaves e.g. 'K30 = CLM/VM' behind when METABOLITE moves from 3 to 2 and defines K20 = K30)
                    stale_k.append(x)
                    continue
                if j == ncomp + 1:
                    j = 0
                kparams.append((i, j, f'(Sym {names.p(x)})'))
    zero = []                                  # only to choose the inputs; the verdict computes it from the read code
    for part in (pk, des, err):
        for x in nm.assigned(part):
            if x not in zero:
                zero.append(x)
    # the re-read model
    rr_ok = True
    rr_before, rr_after, rr_flows, rr_f = [], [], [], None
    par_a = params_term(m)
    par_b = '[]'
    rvs_equal = True
    try:
        m2 = read_model_from_string(code)
        b2, a2, rr_f, f2, _, _, _, _, _ = ir_part(m2, names)
        rr_before, rr_after, rr_flows = b2, a2, f2
        par_b = params_term(m2)
        rvs_equal = True
        info['param_names_equal'] = m.parameters.names == m2.parameters.names
    except sc.Unconvertible:
        raise
    except Exception as e:  # noqa
        rr_ok = False
        info['reread_exc'] = f'{type(e).__name__}: {e}'[:200]
    # environments
    syms = set()
    for part in (pk, des, err):
        syms |= nm.symbols(part)
    allnames = set(names.ids)
    inputs = sorted((syms | allnames) - set(zero) - set(cmp_b) - set(cmp_a) - {'F'})
    rng = random.Random(spec['seed'] + 1)
    rows = None
    try:
        if m.dataset is not None:
            rows = m.dataset
    except Exception:
        rows = None
    envs = []
    for k in range(8):
        env = {}
        row = None
        if rows is not None and k % 2 == 0:
            row = rows.iloc[rng.randrange(len(rows))]
        for s in inputs:
            if s.startswith('THETA('):
                v = rng.choice([F(1, 2), F(1), F(2), F(3), F(4), F(1, 4), F(8)])
            elif s.startswith('ETA('):
                v = F(rng.choice([-1, 0, 0, 1, 2]))
            elif s.startswith('EPS('):
                v = F(rng.choice([-1, 0, 1]))
            elif s.startswith('A(') or s.startswith('A_0('):
                v = F(rng.choice([1, 2, 4, 8, 3]))
            elif s == 'T':
                v = F(rng.choice([1, 2, 4]))
            elif 'dvids' in irinfo and s == irinfo['dvids'][0]:
                v = F(rng.choice(irinfo['dvids'][1]))
            elif row is not None and s in row.index:
                try:
                    v = F(float(row[s]))
                except (TypeError, ValueError):
                    v = F(rng.choice([1, 2, 3]))
            else:
                v = F(rng.choice([1, 2, 3, 4, 5, 7, 10, F(1, 2)]))
            env[s] = v
        env['F'] = F(rng.choice([1, 2, 4]))
        envs.append(env)
    envterm = ct.lst([ct.lst([ct.pair(names.p(k_), ct.q(v)) for k_, v in e.items()]) for e in envs])

    def fl(l):
        return ct.lst([ct.tup(ct.nat(i), ct.nat(j), e) for i, j, e in l])

    ids = lambda l: ct.lst([names.p(x) for x in l])
    nh = spec.pop('_names', [None])
    central = m.statements.ode_system.central_compartment.name if m.statements.ode_system is not None else 'CENTRAL'
    if all(x is not None for x in nh):
        cn = lambda l: ct.lst([names.p('cmt:' + x) for x in l])
        k0 = _s_index(start_model(spec['start']))
        k1 = _s_index(m)
        sterm = (f"(mkS {names.p('cmt:OUTPUT')} {names.p('cmt:' + central)} {cn(nh[0])} {ct.lst([cn(x) for x in nh[1:]])} "
                 f"{ct.opt(None if k0 is None else ct.nat(k0))} {ct.opt(None if k1 is None else ct.nat(k1))})")
    else:
        sterm = f"(mkS {names.p('cmt:OUTPUT')} {names.p('cmt:' + central)} [] [] None None)"
    term = ('(mkHt ' + sterm + '\n  ' + nm.toks_term(pk, names) + '\n  ' + nm.toks_term(des, names) + '\n  ' + nm.toks_term(err, names)
            + '\n  (fun pk des err zero => mkH ' + ' '.join([
        ct.nat(advan), ct.nat(trans),
        '\n  pk des err',
        '\n  ' + ct.lst(before), '\n  ' + ct.lst(after),
        'None' if fterm is None else f'(Some {fterm})',
        '\n  ' + fl(flows),
        ct.lst([ct.pair(names.p(x), e) for x, e in ode]),
        fl(kparams),
        names.p(f'A({defobs})'), names.p(f'S{defobs}'),
        ct.lst([ct.tup(ct.nat(a), ct.nat(b), ct.nat(c)) for a, b, c in index]),
        ids([x for x in cmp_b if x != 'DUMMYETA']), ids([x for x in cmp_a if x != 'F']), 'zero',
        '\n  ' + ct.lst(rr_before), ct.lst(rr_after), fl(rr_flows),
        'None' if rr_f is None else f'(Some {rr_f})', ct.boolean(rr_ok),
        par_a, par_b, ct.boolean(rvs_equal),
        '\n  ' + envterm]) + '))')
    info.update({'ncomp': irinfo['ncomp'], 'index': index, 'n_pk': len(pk), 'n_err': len(err), 'n_des': len(des),
                 'nflows': len(flows), 'has_f': fterm is not None, 'stale_k': stale_k})
    return term, info
