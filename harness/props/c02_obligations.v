(* Obligations about the tables REGENERATED from /repo's update.py (C02gen.PkConv: pk_rename, trans_choice).
   Copied to build/gen/C02/ and compiled against the freshly generated PkConv.v on every run: when the
   source changes (a swapped entry, a changed TRANS decision) these proofs stop compiling.
   Every statement is a complete enumeration of the finite domain named in it, closed by vm_compute. *)
From Coq Require Import List Bool PArith Arith.
From PV Require Import Base.Expr C02.Spec.
From C02gen Require Import PkConv.
Import ListNotations.
Local Open Scope nat_scope.

(* dict semantics of `d[k] = v` / `d.update`: the last entry for a key wins; statements.subs(d) renames
   simultaneously *)
Definition rename (l : list (id * id)) (x : id) : id :=
  match alookup (rev l) x with Some y => y | None => x end.

Definition advans : list nat := [1; 2; 3; 4; 11; 12].
Definition transes : list nat := [1; 2; 3; 4; 5; 6].
Definition has_depot (a : nat) : bool := match a with 2 | 4 | 12 => true | _ => false end.
Definition nperiph (a : nat) : nat := match a with 3 | 4 => 1 | 11 | 12 => 2 | _ => 0 end.
(* one structural step: a depot added/removed, or one peripheral compartment added/removed *)
Definition adjacent (a a' : nat) : bool :=
  (Bool.eqb (has_depot a) (has_depot a') && ((nperiph a =? S (nperiph a')) || (nperiph a' =? S (nperiph a)))) ||
  (negb (Bool.eqb (has_depot a) (has_depot a')) && (nperiph a =? nperiph a')).

Definition nonempty {A} (l : list A) : bool := match l with [] => false | _ => true end.

(* (from ADVAN, its TRANS, target ADVAN) *)
Definition domain : list (nat * nat * nat) :=
  flat_map (fun a => flat_map (fun t0 =>
     if valid_trans a t0 && nonempty (param_names a t0)
     then flat_map (fun a' => if adjacent a a' then [(a, t0, a')] else []) advans
     else []) transes) advans.

Definition memid (x : id) (l : list id) : bool := existsb (Pos.eqb x) l.
Definition orole_eqb (a b : option role) : bool :=
  match a, b with Some x, Some y => role_eqb x y | None, None => true | _, _ => false end.

(* the TRANS chosen for the target is one the target ADVAN accepts and has a parameter table *)
Definition check_choice (c : nat * nat * nat) : bool :=
  let '(a, t0, a') := c in
  forallb (fun symq => match trans_choice false (Some t0) a' symq with
                       | Some t => valid_trans a' t && nonempty (param_names a' t)
                       | None => false end) [true; false].

(* without an old TRANS (coming back from $DES) the choice is TRANS2/TRANS4 for CL/V-style elimination, TRANS1 otherwise *)
Definition check_choice_none (a' : nat) : bool :=
  forallb (fun symq => match trans_choice false None a' symq with
                       | Some t => valid_trans a' t
                       | None => false end) [true; false].

(* every entry of the rename table that renames a parameter of the source ADVAN/TRANS gives it the name of a
   parameter of the target ADVAN/TRANS (entries for names the source TRANS does not read — V under TRANS1,
   K12 under TRANS3 — rename user variables consistently and are not constrained) *)
Definition check_lands (c : nat * nat * nat) : bool :=
  let '(a, t0, a') := c in
  match trans_choice false (Some t0) a' true with
  | Some t => forallb (fun p => negb (memid (fst p) (param_names a t0)) || memid (snd p) (param_names a' t))
                      (pk_rename a a' t)
  | None => false
  end.

(* same parameterisation family on both sides: TRANS1 -> TRANS1, TRANS3 -> TRANS3, {TRANS2, TRANS4} -> {TRANS2, TRANS4} *)
Definition same_family (t0 t : nat) : bool :=
  match t0, t with 1, 1 | 3, 3 | (2 | 4), (2 | 4) => true | _, _ => false end.

(* role preservation: a renamed parameter keeps its role (central volume, k-th peripheral volume / flow /
   rate constant, ...), a parameter whose role exists in the target is renamed to the target's name for
   that role, and no two parameters are mapped to the same name *)
Definition check_roles (c : nat * nat * nat) : bool :=
  let '(a, t0, a') := c in
  match trans_choice false (Some t0) a' true with
  | Some t =>
      if same_family t0 t then
        let d := pk_rename a a' t in
        let src := param_names a t0 in
        forallb (fun n =>
            let n' := rename d n in
            (Pos.eqb n' n || orole_eqb (role_of a' t n') (role_of a t0 n)) &&
            forallb (fun m => negb (orole_eqb (role_of a' t m) (role_of a t0 n)) || Pos.eqb n' m) (param_names a' t) &&
            forallb (fun n2 => Pos.eqb n2 n || negb (Pos.eqb (rename d n2) n')) src) src
      else true
  | None => false
  end.

(* ---- TRANS5 / TRANS6 --------------------------------------------------------------------------
   new_advan_trans never keeps or chooses TRANS5/TRANS6: a model that had one of them is switched to
   TRANS1 as soon as its ADVAN changes (its ALPHA/BETA/... parameters are then not the ones the ADVAN
   reads — the situation explanation tag 28 of the check reports).  The TRANS6 entries of the rename
   table are therefore only reachable when the caller passes trans = 'TRANS6' itself; they are checked
   directly: on every adjacent pair of ADVANs that both accept TRANS6, with TRANS6 on both sides, the
   table preserves roles, maps to the target's name and is injective. *)
Definition check_choice56 (a' : nat) : bool :=
  forallb (fun t0 => forallb (fun symq => match trans_choice false (Some t0) a' symq with
                                         | Some 1 => true | _ => false end) [true; false]) [5; 6].

Definition domain6 : list (nat * nat) :=
  flat_map (fun a => flat_map (fun a' => if adjacent a a' && valid_trans a 6 && valid_trans a' 6 &&
                                            nonempty (param_names a 6) && nonempty (param_names a' 6)
                                         then [(a, a')] else []) advans) advans.

Definition check_roles_at (a t0 a' t : nat) : bool :=
  let d := pk_rename a a' t in
  let src := param_names a t0 in
  forallb (fun n =>
      let n' := rename d n in
      (Pos.eqb n' n || orole_eqb (role_of a' t n') (role_of a t0 n)) &&
      forallb (fun m => negb (orole_eqb (role_of a' t m) (role_of a t0 n)) || Pos.eqb n' m) (param_names a' t) &&
      forallb (fun n2 => Pos.eqb n2 n || negb (Pos.eqb (rename d n2) n')) src) src &&
  forallb (fun p => negb (memid (fst p) src) || memid (snd p) (param_names a' t)) d.

Lemma forallb_In {A} (f : A -> bool) l : forallb f l = true -> forall x, In x l -> f x = true.
Proof. intros H x Hx. exact (proj1 (forallb_forall f l) H x Hx). Qed.

Theorem trans_choice_valid : forall c, In c domain -> check_choice c = true.
Proof. apply forallb_In. vm_compute. reflexivity. Qed.

Theorem trans_choice_none_valid : forall a', In a' advans -> check_choice_none a' = true.
Proof. apply forallb_In. vm_compute. reflexivity. Qed.

Theorem pk_rename_lands : forall c, In c domain -> check_lands c = true.
Proof. apply forallb_In. vm_compute. reflexivity. Qed.

Theorem pk_rename_consistent : forall c, In c domain -> check_roles c = true.
Proof. apply forallb_In. vm_compute. reflexivity. Qed.

Theorem trans56_become_trans1 : forall a', In a' advans -> check_choice56 a' = true.
Proof. apply forallb_In. vm_compute. reflexivity. Qed.

Theorem pk_rename_consistent_trans6 : forall c, In c domain6 -> check_roles_at (fst c) 6 (snd c) 6 = true.
Proof. apply forallb_In. vm_compute. reflexivity. Qed.

Example domain6_cells : domain6 = [(3, 4); (3, 11); (4, 3); (4, 12); (11, 3); (11, 12); (12, 4); (12, 11)].
Proof. vm_compute. reflexivity. Qed.

(* non-vacuity: the domain has all 6 x adjacent combinations, and the table really renames there *)
Example domain_size : length domain = 50.
Proof. vm_compute. reflexivity. Qed.
Example rename_example_3_4 :
  map (rename (pk_rename 3 4 4)) (param_names 3 4) = [P_CL; P_V2; P_Q; P_V3] /\
  map (rename (pk_rename 3 4 1)) (param_names 3 1) = [P_K; P_K23; P_K32].
Proof. split; vm_compute; reflexivity. Qed.
