"""T-cov — fail-closed `ast` translator for C09.

Reads the template-building code of pharmpy.modeling (covariate_effect.py, parameter_variability.py, error.py,
odes.py, allometry.py) and emits `PV.Base.Expr.expr` terms (Coq text) for build/gen/C09/Templates.v.

Only straight-line construction code is understood: local name bindings, `Expr.symbol('x')` / `sympy.Symbol('x')`,
`Expr.integer(n)`, `Expr.dummy('x')`, `Expr.exp(e)` / `sympy.exp(e)`, `e.exp()` / `e.log()`, `+ - * / **`, unary minus,
int/float literals, `Expr.piecewise((v, c), ...)`, `BooleanExpr.le/lt/ge/gt/eq/ne`, `sympy.Eq/Ne`, `True`, list
literals, constant subscripts, conditional expressions on a boolean parameter, calls of an operation parameter
(`operation(a, b)`), and `if x == 'lit': return ...` dispatch chains.  Every other node raises Refuse: the check then
reports the obligation as no longer shown (never approximated).

Nothing here imports pharmpy: the translator sees source text only, so it can be pointed at a mutated copy."""
import ast
import hashlib
from fractions import Fraction
from pathlib import Path


class Refuse(Exception):
    pass


# ---------------------------------------------------------------- values of the abstract interpretation
# expression trees: ('num', Fraction) ('sym', name) ('symf', prefix, var) ('fn1', f, a) ('fn2', f, a, b)
# ('add', a, b) ('mul', a, b) ('neg', a) ('div', a, b) ('pw', ((e, c), ...)) ('ifb', param, a, b)
# ('opcall', param, a, b)
# conditions: ('rel', op, a, b) ('ctrue',)
# meta values: ('boolparam', name) ('opparam', name) ('opaque', what) python list / tuple

REL_METHODS = {'le': 'OLe', 'lt': 'OLt', 'ge': 'OGe', 'gt': 'OGt', 'eq': 'OEq', 'ne': 'ONe'}
SYMPY_REL = {'Eq': 'OEq', 'Ne': 'ONe', 'Le': 'OLe', 'Lt': 'OLt', 'Ge': 'OGe', 'Gt': 'OGt'}
CMP_AST = {ast.Lt: 'OLt', ast.LtE: 'OLe', ast.Gt: 'OGt', ast.GtE: 'OGe'}


def is_expr(v):
    return isinstance(v, tuple) and v and v[0] in (
        'num', 'sym', 'symf', 'fn1', 'fn2', 'add', 'mul', 'neg', 'div', 'pw', 'ifb', 'opcall')


def is_cond(v):
    return isinstance(v, tuple) and v and v[0] in ('rel', 'ctrue')


def as_expr(v, node):
    if isinstance(v, bool):
        raise Refuse(f'boolean where an expression is expected at line {node.lineno}')
    if isinstance(v, int):
        return ('num', Fraction(v))
    if isinstance(v, float):
        return ('num', Fraction(repr(v)))
    if is_expr(v):
        return v
    raise Refuse(f'not an expression value at line {getattr(node, "lineno", "?")}: {v!r}')


def dotted(node):
    if isinstance(node, ast.Name):
        return node.id
    if isinstance(node, ast.Attribute):
        b = dotted(node.value)
        return None if b is None else b + '.' + node.attr
    return None


class Interp:
    """Evaluates a restricted expression language over an environment of local names."""

    def __init__(self, env):
        self.env = dict(env)

    def ev(self, n):
        if isinstance(n, ast.Constant):
            if n.value is True:
                return ('ctrue',)
            if isinstance(n.value, (int, float)) and not isinstance(n.value, bool):
                return n.value
            if isinstance(n.value, str):
                return ('str', n.value)
            raise Refuse(f'constant {n.value!r} at line {n.lineno}')
        if isinstance(n, ast.Name):
            if n.id not in self.env:
                raise Refuse(f'unbound name {n.id} at line {n.lineno}')
            return self.env[n.id]
        if isinstance(n, ast.BinOp):
            a, b = as_expr(self.ev(n.left), n), as_expr(self.ev(n.right), n)
            if isinstance(n.op, ast.Add):
                return ('add', a, b)
            if isinstance(n.op, ast.Sub):
                return ('add', a, ('neg', b))
            if isinstance(n.op, ast.Mult):
                return ('mul', a, b)
            if isinstance(n.op, ast.Div):
                return ('div', a, b)
            if isinstance(n.op, ast.Pow):
                return ('fn2', 'pow', a, b)
            raise Refuse(f'operator {type(n.op).__name__} at line {n.lineno}')
        if isinstance(n, ast.UnaryOp) and isinstance(n.op, ast.USub):
            return ('neg', as_expr(self.ev(n.operand), n))
        if isinstance(n, ast.Compare) and len(n.ops) == 1 and type(n.ops[0]) in CMP_AST:
            return ('rel', CMP_AST[type(n.ops[0])], as_expr(self.ev(n.left), n), as_expr(self.ev(n.comparators[0]), n))
        if isinstance(n, ast.IfExp):
            t = self.ev(n.test)
            if not (isinstance(t, tuple) and t[0] == 'boolparam'):
                raise Refuse(f'conditional expression on a non-parameter at line {n.lineno}')
            return ('ifb', t[1], as_expr(self.ev(n.body), n), as_expr(self.ev(n.orelse), n))
        if isinstance(n, ast.List):
            return [self.ev(x) for x in n.elts]
        if isinstance(n, ast.Tuple):
            return tuple(['tuple'] + [self.ev(x) for x in n.elts])
        if isinstance(n, ast.Subscript):
            v = self.ev(n.value)
            i = n.slice
            if isinstance(v, list) and isinstance(i, ast.Constant) and isinstance(i.value, int):
                return v[i.value]
            raise Refuse(f'subscript at line {n.lineno}')
        if isinstance(n, ast.JoinedStr):
            parts = n.values
            if (len(parts) == 2 and isinstance(parts[0], ast.Constant) and isinstance(parts[1], ast.FormattedValue)
                    and isinstance(parts[1].value, ast.Name) and parts[1].conversion == -1 and parts[1].format_spec is None):
                v = self.env.get(parts[1].value.id)
                if isinstance(v, tuple) and v[0] == 'indexparam':
                    return ('fstr', parts[0].value, v[1])
            raise Refuse(f'f-string at line {n.lineno}')
        if isinstance(n, ast.Call):
            return self.call(n)
        raise Refuse(f'node {type(n).__name__} at line {getattr(n, "lineno", "?")}')

    def call(self, n):
        if n.keywords:
            raise Refuse(f'keyword arguments at line {n.lineno}')
        name = dotted(n.func)
        args = n.args
        if name in ('Expr.symbol', 'sympy.Symbol', 'Expr.dummy'):
            if len(args) != 1:
                raise Refuse(f'symbol arity at line {n.lineno}')
            v = self.ev(args[0])
            if isinstance(v, tuple) and v[0] == 'str':
                return ('sym', v[1])
            if isinstance(v, tuple) and v[0] == 'fstr':
                return ('symf', v[1], v[2])
            raise Refuse(f'symbol name at line {n.lineno}')
        if name == 'create_symbol':
            if len(args) == 2 and isinstance(args[1], ast.Constant) and isinstance(args[1].value, str):
                return ('sym', args[1].value)
            raise Refuse(f'create_symbol at line {n.lineno}')
        if name == 'Expr.integer':
            if len(args) == 1 and isinstance(args[0], ast.Constant) and isinstance(args[0].value, int):
                return ('num', Fraction(args[0].value))
            v = self.ev(args[0]) if len(args) == 1 else None
            if is_expr(v):
                return v
            raise Refuse(f'Expr.integer at line {n.lineno}')
        if name in ('Expr.exp', 'sympy.exp'):
            if len(args) != 1:
                raise Refuse(f'exp arity at line {n.lineno}')
            return ('fn1', 'exp', as_expr(self.ev(args[0]), n))
        if name in ('Expr.log', 'sympy.log'):
            if len(args) != 1:
                raise Refuse(f'log arity at line {n.lineno}')
            return ('fn1', 'log', as_expr(self.ev(args[0]), n))
        if name == 'Expr.piecewise':
            pieces = []
            for a in args:
                if isinstance(a, ast.Starred):
                    raise Refuse(f'starred piecewise argument at line {n.lineno}')
                v = self.ev(a)
                if not (isinstance(v, tuple) and v[0] == 'tuple' and len(v) == 3):
                    raise Refuse(f'piecewise piece at line {n.lineno}')
                c = v[2]
                if not is_cond(c):
                    raise Refuse(f'piecewise condition at line {n.lineno}')
                pieces.append((as_expr(v[1], n), c))
            return ('pw', tuple(pieces))
        if name is not None and name.startswith('BooleanExpr.') and name.split('.')[1] in REL_METHODS and len(args) == 2:
            return ('rel', REL_METHODS[name.split('.')[1]], as_expr(self.ev(args[0]), n), as_expr(self.ev(args[1]), n))
        if name is not None and name.startswith('sympy.') and name.split('.')[1] in SYMPY_REL and len(args) == 2:
            return ('rel', SYMPY_REL[name.split('.')[1]], as_expr(self.ev(args[0]), n), as_expr(self.ev(args[1]), n))
        # method calls e.exp() / e.log()
        if isinstance(n.func, ast.Attribute) and n.func.attr in ('exp', 'log') and not args:
            return ('fn1', n.func.attr, as_expr(self.ev(n.func.value), n))
        # call of an operation parameter
        if isinstance(n.func, ast.Name):
            f = self.env.get(n.func.id)
            if isinstance(f, tuple) and f[0] == 'opparam' and len(args) == 2:
                return ('opcall', f[1], as_expr(self.ev(args[0]), n), as_expr(self.ev(args[1]), n))
        raise Refuse(f'call {name or ast.dump(n.func)[:60]} at line {n.lineno}')


# ---------------------------------------------------------------- source access
class Source:
    def __init__(self, path):
        self.path = Path(path)
        self.text = self.path.read_text()
        self.tree = ast.parse(self.text)
        self.used = []          # (qualified name, sha256 of the function source)

    def func(self, name, cls=None):
        body = self.tree.body
        if cls is not None:
            cs = [n for n in body if isinstance(n, ast.ClassDef) and n.name == cls]
            if len(cs) != 1:
                raise Refuse(f'class {cls} not found exactly once in {self.path.name}')
            body = cs[0].body
        fs = [n for n in body if isinstance(n, ast.FunctionDef) and n.name == name]
        if len(fs) != 1:
            raise Refuse(f'function {cls + "." if cls else ""}{name} not found exactly once in {self.path.name}')
        seg = ast.get_source_segment(self.text, fs[0]) or ''
        self.used.append((f'{self.path.name}:{cls + "." if cls else ""}{name}', hashlib.sha256(seg.encode()).hexdigest()[:16]))
        return fs[0]


def strip_doc(body):
    if body and isinstance(body[0], ast.Expr) and isinstance(body[0].value, ast.Constant) and isinstance(body[0].value.value, str):
        return body[1:]
    return body


def run_straight_line(fn, env, want):
    """Interpret a function body made only of `name = <expr>` statements followed by `return ...`; returns the
    value bound to `want` at the return.  `template = Assignment.create(symbol, expression)` and `return cls(x)` /
    `return x` are accepted and ignored (the caller asks for the expression variable)."""
    it = Interp(env)
    body = strip_doc(fn.body)
    if not body or not isinstance(body[-1], ast.Return):
        raise Refuse(f'{fn.name}: does not end in return')
    for st in body[:-1]:
        if not (isinstance(st, ast.Assign) and len(st.targets) == 1 and isinstance(st.targets[0], ast.Name)):
            raise Refuse(f'{fn.name}: statement {type(st).__name__} at line {st.lineno}')
        tgt = st.targets[0].id
        call = dotted(st.value.func) if isinstance(st.value, ast.Call) else None
        if call == 'Assignment.create':
            # template = Assignment.create(symbol, expression): remember which variable is the rhs
            a = st.value.args
            if len(a) != 2 or not isinstance(a[1], ast.Name):
                raise Refuse(f'{fn.name}: Assignment.create shape at line {st.lineno}')
            it.env[tgt] = ('assignment', a[1].id)
            continue
        it.env[tgt] = it.ev(st.value)
    ret = body[-1].value
    # return cls(template) | return template
    if isinstance(ret, ast.Call) and dotted(ret.func) == 'cls' and len(ret.args) == 1 and isinstance(ret.args[0], ast.Name):
        rv = ret.args[0].id
    elif isinstance(ret, ast.Name):
        rv = ret.id
    else:
        raise Refuse(f'{fn.name}: return shape at line {ret.lineno}')
    v = it.env.get(rv)
    if isinstance(v, tuple) and v[0] == 'assignment':
        v = it.env.get(v[1])
    if want is not None and rv != want and not (isinstance(it.env.get(rv), tuple) and it.env[rv][0] == 'assignment'):
        raise Refuse(f'{fn.name}: returns {rv}, expected {want}')
    return as_expr(v, ret)


def dispatch_chain(fn, var, until_else=True):
    """`if var == 'a': return X ... elif var == 'b': ... else: ...` -> [(literal, return-node)]; statements before
    the chain must be plain assignments (ignored).  The else branch is returned under key None."""
    body = strip_doc(fn.body)
    chain = None
    for st in body:
        if isinstance(st, ast.If):
            chain = st
            break
        if not isinstance(st, ast.Assign):
            raise Refuse(f'{fn.name}: statement before dispatch at line {st.lineno}')
    if chain is None:
        raise Refuse(f'{fn.name}: no dispatch chain')
    out = []
    cur = chain
    while True:
        t = cur.test
        if not (isinstance(t, ast.Compare) and len(t.ops) == 1 and isinstance(t.ops[0], ast.Eq)
                and isinstance(t.left, ast.Name) and t.left.id == var
                and isinstance(t.comparators[0], ast.Constant) and isinstance(t.comparators[0].value, str)):
            raise Refuse(f'{fn.name}: dispatch test at line {cur.lineno}')
        out.append((t.comparators[0].value, cur.body))
        if len(cur.orelse) == 1 and isinstance(cur.orelse[0], ast.If):
            cur = cur.orelse[0]
        else:
            out.append((None, cur.orelse))
            break
    return out


def find_nodes(fn, pred):
    return [n for n in ast.walk(fn) if pred(n)]


def unique(nodes, what):
    if len(nodes) != 1:
        raise Refuse(f'{what}: expected exactly one occurrence, found {len(nodes)}')
    return nodes[0]


# ---------------------------------------------------------------- printing to Coq
class Printer:
    def __init__(self, symtab, indexfun='theta_n'):
        self.symtab = symtab
        self.indexfun = indexfun

    def sym(self, name):
        if name not in self.symtab:
            raise Refuse(f'symbol {name!r} has no Coq counterpart')
        return self.symtab[name]

    def q(self, x):
        return f'({x.numerator}#{x.denominator})%Q'

    def e(self, t):
        k = t[0]
        if k == 'num':
            return f'(Num {self.q(t[1])})'
        if k == 'sym':
            return f'(Sym {self.sym(t[1])})'
        if k == 'symf':
            if t[1] != 'theta':
                raise Refuse(f'indexed symbol prefix {t[1]!r}')
            return f'(Sym ({self.indexfun} {t[2]}))'
        if k == 'fn1':
            return f'(Fn1 {dict(exp="F_EXP", log="F_LOG")[t[1]]} {self.e(t[2])})'
        if k == 'fn2':
            return f'(Fn2 F_POW {self.e(t[2])} {self.e(t[3])})'
        if k in ('add', 'mul', 'div'):
            return f'({k.capitalize()} {self.e(t[1])} {self.e(t[2])})'
        if k == 'neg':
            return f'(Neg {self.e(t[1])})'
        if k == 'pw':
            r = 'PwNil'
            for (v, c) in reversed(t[1]):
                r = f'(PwCons {self.c(c)} {self.e(v)} {r})'
            return r
        if k == 'ifb':
            return f'(if {t[1]} then {self.e(t[2])} else {self.e(t[3])})'
        if k == 'opcall':
            return f'(apply_op {t[1]} {self.e(t[2])} {self.e(t[3])})'
        raise Refuse(f'cannot print {k}')

    def c(self, t):
        if t[0] == 'ctrue':
            return 'CTrue'
        if t[0] == 'rel':
            return f'(CRel {t[1]} {self.e(t[2])} {self.e(t[3])})'
        raise Refuse(f'cannot print condition {t[0]}')


# names of template symbols -> identifiers defined in coq/theories/C09/Model.v
SYMTAB = {
    'cov': 's_cov', 'median': 's_median', 'mean': 's_mean', 'std': 's_std', 'theta': 's_theta',
    'theta1': 's_theta1', 'theta2': 's_theta2', 'NaN': 's_nan',
    'original': 's_original', 'eta_new': 's_eta_new',
    'x': 's_x', 'f': 's_f', 'epsilon_p': 's_eps_p', 'epsilon_a': 's_eps_a', 'IPREDADJ': 's_ipredadj',
    'ETA_RV1': 's_eta_ruv', 'time_varying': 's_time_varying',
    'n': 's_n', 'MDT': 's_mdt', 'MAT': 's_mat', 'P': 's_p', 'variable': 's_var', 'reference': 's_ref',
    'ALLO': 's_allo', 'most_common': 's_most_common', 'cat': 's_cat',
    'eps': 's_eps', 'ipred': 's_ipred', 'power': 's_power', 'eta': 's_eta',
}


# ---------------------------------------------------------------- the individual translations
def translate_covariate_effect(src, P):
    out = {}
    kinds = {'ELin': 'linear', 'EPiece': 'piecewise_linear', 'EExp': 'exponential', 'EPow': 'power'}
    exprs = {}
    for k, meth in kinds.items():
        fn = src.func(meth, 'CovariateEffect')
        exprs[k] = run_straight_line(fn, {}, 'template')
    out['effect_template'] = ('Definition effect_template (k : ekind) : expr :=\n  match k with\n'
                              + ''.join(f'  | {k} => {P.e(v)}\n' for k, v in exprs.items()) + '  end.')
    # _create_template dispatch: effect string -> constructor
    fn = src.func('_create_template')
    table = []
    want = {'linear': 'DLin', 'piecewise_linear': 'DPiece', 'exponential': 'DExp', 'power': 'DPow'}
    for lit, body in dispatch_chain(fn, 'effect'):
        if lit is None:
            continue
        ret = body[-1]
        if not isinstance(ret, ast.Return) or not isinstance(ret.value, ast.Call):
            raise Refuse(f'_create_template branch {lit}')
        name = dotted(ret.value.func)
        if name and name.startswith('CovariateEffect.') and name.split('.')[1] in want and not ret.value.args:
            table.append((lit, want[name.split('.')[1]]))
        elif name == 'CovariateEffect.categorical':
            alt = any(kw.arg == 'alternative' and isinstance(kw.value, ast.Constant) and kw.value.value is True
                      for kw in ret.value.keywords)
            if [kw.arg for kw in ret.value.keywords] not in ([], ['alternative']):
                raise Refuse(f'_create_template branch {lit}: keywords')
            table.append((lit, 'DCat true' if alt else 'DCat false'))
        else:
            raise Refuse(f'_create_template branch {lit}: {name}')
    out['effect_dispatch'] = ('Definition effect_dispatch : list (list N * dkind) :=\n  ['
                              + ';\n   '.join(f'({codes(l)}, {k})' for l, k in table) + '].')
    # _get_operation: '*' -> mul, '+' -> add
    fn = src.func('_get_operation', 'CovariateEffect')
    ops = []
    for lit, body in dispatch_chain(fn, 'operation_str'):
        if lit is None:
            continue
        ret = body[-1]
        if not (isinstance(ret, ast.Return) and isinstance(ret.value, ast.Name) and ret.value.id in ('mul', 'add')):
            raise Refuse('_get_operation branch')
        ops.append((lit, 'OpMul' if ret.value.id == 'mul' else 'OpAdd'))
    out['effect_ops'] = ('Definition effect_ops : list (list N * binop) :=\n  ['
                         + '; '.join(f'({codes(l)}, {o})' for l, o in ops) + '].')
    # create_effect_statement: operation(expression, self.template.symbol) with expression = statement_original.symbol
    fn = src.func('create_effect_statement', 'CovariateEffect')
    it = Interp({'operation': ('opparam', 'o')})
    seen = {}
    for st in strip_doc(fn.body):
        if isinstance(st, ast.Assign) and len(st.targets) == 1 and isinstance(st.targets[0], ast.Name):
            t = st.targets[0].id
            v = st.value
            if t == 'operation' and isinstance(v, ast.Call) and dotted(v.func) == 'self._get_operation':
                continue
            if dotted(v) == 'statement_original.symbol':
                it.env[t] = ('sym', 'P')
                seen[t] = 'param'
                continue
            if isinstance(v, ast.Call) and dotted(v.func) == 'Assignment.create' and len(v.args) == 2:
                lhs = it.ev(v.args[0])
                call = v.args[1]
                if not (isinstance(call, ast.Call) and isinstance(call.func, ast.Name) and call.func.id == 'operation'
                        and len(call.args) == 2 and dotted(call.args[1]) == 'self.template.symbol'):
                    raise Refuse('create_effect_statement: rhs shape')
                a = as_expr(it.ev(call.args[0]), call)
                if lhs != ('sym', 'P'):
                    raise Refuse('create_effect_statement: lhs is not the parameter symbol')
                seen['rhs'] = ('opcall', 'o', a, ('sym', 'EFFECT'))
                continue
            raise Refuse(f'create_effect_statement: statement at line {st.lineno}')
        elif isinstance(st, ast.Return):
            continue
        else:
            raise Refuse(f'create_effect_statement: statement {type(st).__name__}')
    if 'rhs' not in seen:
        raise Refuse('create_effect_statement: no effect statement found')
    P2 = Printer(dict(P.symtab, P='s_p', EFFECT='s_effect'))
    out['effect_statement_rhs'] = f"Definition effect_statement_rhs (o : binop) : expr := {P2.e(seen['rhs'])}."
    # categorical: leaves of the loop
    out['categorical'] = translate_categorical(src, P)
    return out


def codes(s):
    return '[' + '; '.join(f'{ord(c)}%N' for c in s) + ']'


def translate_categorical(src, P):
    """The loop of CovariateEffect.categorical is modelled by hand (Model.v `categorical`), validated by
    correspondence; the translator reads the leaf values/conditions it appends in each branch."""
    fn = src.func('categorical', 'CovariateEffect')
    env = {'most_common': ('sym', 'most_common'), 'cat': ('sym', 'cat'), 'i': ('indexparam', 'i')}
    it = Interp(env)
    body = strip_doc(fn.body)
    first = {}
    loop = None
    for st in body:
        if isinstance(st, ast.Assign) and isinstance(st.targets[0], ast.Name) and st.targets[0].id in ('values', 'conditions'):
            v = it.ev(st.value)
            if not (isinstance(v, list) and len(v) == 1):
                raise Refuse('categorical: initial list')
            first[st.targets[0].id] = v[0]
        elif isinstance(st, ast.For):
            loop = st
    if loop is None or set(first) != {'values', 'conditions'}:
        raise Refuse('categorical: shape')
    # for i, cat in enumerate(categories, 1):
    itn = loop.iter
    if not (isinstance(itn, ast.Call) and dotted(itn.func) == 'enumerate' and len(itn.args) == 2
            and isinstance(itn.args[1], ast.Constant)):
        raise Refuse('categorical: loop header')
    start = itn.args[1].value
    if len(loop.body) != 1 or not isinstance(loop.body[0], ast.If):
        raise Refuse('categorical: loop body')
    outer = loop.body[0]
    if ast.unparse(outer.test) != 'cat != most_common' or outer.orelse:
        raise Refuse('categorical: outer test')
    if len(outer.body) != 1 or not isinstance(outer.body[0], ast.If) or ast.unparse(outer.body[0].test) != 'np.isnan(cat)':
        raise Refuse('categorical: nan test')
    nanif = outer.body[0]

    def appended(stmts):
        r = {}
        for st in stmts:
            if isinstance(st, ast.AugAssign) and isinstance(st.op, ast.Add) and isinstance(st.target, ast.Name):
                v = it.ev(st.value)
                if not (isinstance(v, list) and len(v) == 1):
                    raise Refuse('categorical: appended list')
                r[st.target.id] = v[0]
            elif isinstance(st, ast.If):
                r['if'] = st
            else:
                raise Refuse(f'categorical: statement at line {st.lineno}')
        return r
    nan = appended(nanif.body)
    oth = appended(nanif.orelse)
    two = oth.get('if')
    if two is None or ast.unparse(two.test) != 'len(categories) == 2':
        raise Refuse('categorical: two-category test')

    def altsplit(stmts):
        if len(stmts) != 1 or not isinstance(stmts[0], ast.If) or ast.unparse(stmts[0].test) != 'alternative':
            raise Refuse('categorical: alternative test')
        a, b = appended(stmts[0].body), appended(stmts[0].orelse)
        return as_expr(a['values'], stmts[0]), as_expr(b['values'], stmts[0])
    two_alt, two_std = altsplit(two.body)
    many_alt, many_std = altsplit(two.orelse)
    lines = [
        f"Definition cat_enumerate_start : nat := {int(start)}.",
        f"Definition cat_first_value : expr := {P.e(as_expr(first['values'], fn))}.",
        f"Definition cat_first_cond : cond := {P.c(first['conditions'])}.",
        f"Definition cat_nan_value : expr := {P.e(as_expr(nan['values'], fn))}.",
        f"Definition cat_nan_cond : cond := {P.c(nan['conditions'])}.",
        f"Definition cat_other_cond : cond := {P.c(oth['conditions'])}.",
        "Definition cat_other_value (two alternative : bool) (i : nat) : expr :=\n"
        f"  if two then (if alternative then {P.e(two_alt)} else {P.e(two_std)})\n"
        f"  else (if alternative then {P.e(many_alt)} else {P.e(many_std)}).",
    ]
    return '\n'.join(lines)


def translate_iiv(src, P):
    out = {}
    meths = {'IAdd': 'additive', 'IProp': 'proportional', 'IExp': 'exponential', 'ILogit': 'logit', 'IReLogit': 're_logit'}
    exprs = {}
    for k, m in meths.items():
        fn = src.func(m, 'EtaAddition')
        exprs[k] = run_straight_line(fn, {'operation': ('opparam', 'o')}, 'template')
    out['iiv_template'] = ('Definition iiv_template (k : ikind) (o : binop) : expr :=\n  match k with\n'
                           + ''.join(f'  | {k} => {P.e(v)}\n' for k, v in exprs.items()) + '  end.')
    fn = src.func('_create_template')
    table = []
    rev = {v: k for k, v in meths.items()}
    for lit, body in dispatch_chain(fn, 'expression'):
        if lit is None:
            continue
        ret = body[-1]
        name = dotted(ret.value.func) if isinstance(ret, ast.Return) and isinstance(ret.value, ast.Call) else None
        if not (name and name.startswith('EtaAddition.') and name.split('.')[1] in rev):
            raise Refuse(f'parameter_variability._create_template branch {lit}')
        table.append((lit, rev[name.split('.')[1]]))
    out['iiv_dispatch'] = ('Definition iiv_dispatch : list (list N * ikind) :=\n  ['
                           + '; '.join(f'({codes(l)}, {k})' for l, k in table) + '].')
    fn = src.func('_get_operation_func')
    ops = []
    for lit, body in dispatch_chain(fn, 'operation'):
        if lit is None:
            continue
        ret = body[-1]
        if not (isinstance(ret, ast.Return) and isinstance(ret.value, ast.Name) and ret.value.id in ('mul', 'add')):
            raise Refuse('_get_operation_func branch')
        ops.append((lit, 'OpMul' if ret.value.id == 'mul' else 'OpAdd'))
    out['iiv_ops'] = ('Definition iiv_ops : list (list N * binop) :=\n  ['
                      + '; '.join(f'({codes(l)}, {o})' for l, o in ops) + '].')
    # re_log: phi = log(e / (1 - e))
    fn = src.func('add_iiv')
    cands = find_nodes(fn, lambda n: isinstance(n, ast.Call) and dotted(n.func) == 'Assignment' and len(n.args) == 2
                       and isinstance(n.args[0], ast.Name) and n.args[0].id == 'phi')
    node = unique(cands, 'add_iiv: Assignment(phi, ...)')
    it = Interp({})
    it.env['statement'] = ('opaque', 'statement')

    class PhiInterp(Interp):
        def ev(self, n):
            if dotted(n) == 'statement.expression':
                return ('sym', 'original')
            return super().ev(n)
    out['relogit_phi'] = f"Definition relogit_phi : expr := {P.e(as_expr(PhiInterp({}).ev(node.args[1]), node))}."
    return out


class ErrInterp(Interp):
    pass


def translate_error(src, P):
    out = {}
    # ---- additive: expr = f + ruv
    fn = src.func('set_additive_error_model')
    env = {'f': ('sym', 'f')}
    it = Interp(env)
    got = None
    for st in strip_doc(fn.body):
        if isinstance(st, ast.Assign) and isinstance(st.targets[0], ast.Name):
            t = st.targets[0].id
            if t == 'ruv':
                it.env['ruv'] = it.ev(st.value)
            elif t == 'expr' and got is None:
                got = as_expr(it.ev(st.value), st)
    if got is None:
        raise Refuse('set_additive_error_model: expr')
    out['add_error'] = f"Definition add_error : expr := {P.e(got)}."

    # ---- proportional
    fn = src.func('set_proportional_error_model')
    it = Interp({'f': ('sym', 'f'), 'zero_protection': ('boolparam', 'zero_protection')})
    branches = {}
    guard = None
    for st in strip_doc(fn.body):
        if isinstance(st, ast.Assign) and isinstance(st.targets[0], ast.Name):
            t = st.targets[0].id
            if t in ('ruv', 'ipred', 'f_dummy'):
                it.env[t] = it.ev(st.value)
        elif isinstance(st, ast.If):
            tst = ast.unparse(st.test)
            if tst == 'data_trans == dv.log()':
                cur = st
                while True:
                    key = ast.unparse(cur.test)
                    tag = {'data_trans == dv.log()': 'DTLog', 'data_trans == dv': 'DTId'}.get(key)
                    if tag is None:
                        raise Refuse(f'set_proportional_error_model: branch test {key}')
                    asg = unique([s for s in cur.body if isinstance(s, ast.Assign)], 'error_expr assignment')
                    if ast.unparse(asg.targets[0]) != 'error_expr':
                        raise Refuse('set_proportional_error_model: branch body')
                    branches[tag] = as_expr(it.ev(asg.value), asg)
                    if len(cur.orelse) == 1 and isinstance(cur.orelse[0], ast.If):
                        cur = cur.orelse[0]
                    else:
                        if not (len(cur.orelse) == 1 and isinstance(cur.orelse[0], ast.Raise)):
                            raise Refuse('set_proportional_error_model: else branch')
                        break
            elif tst == 'zero_protection':
                g = [s for s in st.body if isinstance(s, ast.Assign) and ast.unparse(s.targets[0]) == 'guard_expr']
                guard = as_expr(Interp({'f': ('sym', 'f')}).ev(unique(g, 'guard_expr').value), st)
    if set(branches) != {'DTLog', 'DTId'} or guard is None:
        raise Refuse('set_proportional_error_model: branches')
    out['prop_error'] = ('Definition prop_error (dt : dtrans) (zero_protection : bool) : expr :=\n  match dt with\n'
                         + ''.join(f'  | {k} => {P.e(v)}\n' for k, v in branches.items()) + '  end.')
    out['prop_guard'] = f"Definition prop_guard : expr := {P.e(guard)}."

    # ---- combined
    fn = src.func('set_combined_error_model')
    it = Interp({'f': ('sym', 'f')})
    comb = {}
    for st in strip_doc(fn.body):
        if isinstance(st, ast.Assign) and isinstance(st.targets[0], ast.Name):
            t = st.targets[0].id
            if t in ('ruv_prop', 'ruv_add', 'eta_ruv', 'theta_time', 'f_dummy'):
                it.env[t] = it.ev(st.value)
        elif isinstance(st, ast.If) and ast.unparse(st.test) == 'data_trans == dv.log()':
            asg = unique([s for s in st.body if isinstance(s, ast.Assign)], 'combined log branch')
            comb['CombLog'] = as_expr(it.ev(asg.value), asg)
            if not (len(st.orelse) == 1 and isinstance(st.orelse[0], ast.If) and ast.unparse(st.orelse[0].test) == 'data_trans == dv'):
                raise Refuse('set_combined_error_model: second branch')
            inner = st.orelse[0].body
            chain = unique([s for s in inner if isinstance(s, ast.If)], 'combined inner chain')
            # branch 1: time varying (piecewise surgery, modelled by the oracle only)
            if not ast.unparse(chain.test).startswith('expr.is_piecewise()'):
                raise Refuse('set_combined_error_model: time-varying branch test')
            b2 = chain.orelse
            if not (len(b2) == 1 and isinstance(b2[0], ast.If)):
                raise Refuse('set_combined_error_model: iiv-on-ruv branch')
            b2 = b2[0]
            if ast.unparse(b2.test) != ('eta_ruv in model.random_variables.free_symbols and '
                                        'theta_time not in model.parameters.symbols'):
                raise Refuse('set_combined_error_model: iiv-on-ruv branch test')
            asg = unique([s for s in b2.body if isinstance(s, ast.Assign)], 'combined iiv-on-ruv expr')
            comb['CombIivRuv'] = as_expr(it.ev(asg.value), asg)
            asg = unique([s for s in b2.orelse if isinstance(s, ast.Assign)], 'combined plain expr')
            comb['CombPlain'] = as_expr(it.ev(asg.value), asg)
    if set(comb) != {'CombLog', 'CombIivRuv', 'CombPlain'}:
        raise Refuse('set_combined_error_model: branches')
    out['comb_error'] = ('Definition comb_error (k : combkind) : expr :=\n  match k with\n'
                         + ''.join(f'  | {k} => {P.e(v)}\n' for k, v in comb.items()) + '  end.')

    # ---- set_iiv_on_ruv: eps -> eps * exp(eta);  set_power_on_ruv: eps -> ipred ** theta * eps
    fn = src.func('set_iiv_on_ruv')
    d = unique(find_nodes(fn, lambda n: isinstance(n, ast.Dict) and len(n.keys) == 1), 'set_iiv_on_ruv: subs dict')

    class RuvInterp(Interp):
        def call(self, n):
            name = dotted(n.func)
            if name == 'Expr.symbol' and len(n.args) == 1:
                a = ast.unparse(n.args[0])
                if a == 'e.names[0]' or a == 'e':
                    return ('sym', 'eps')
                if a == 'eta_dict[e].names[0]':
                    return ('sym', 'eta')
                if a == 'theta.name':
                    return ('sym', 'power')
            return super().call(n)
    ri = RuvInterp({'ipred': ('sym', 'ipred')})
    if ri.ev(d.keys[0]) != ('sym', 'eps'):
        raise Refuse('set_iiv_on_ruv: key')
    out['iiv_on_ruv'] = f"Definition iiv_on_ruv_subst : expr := {P.e(as_expr(ri.ev(d.values[0]), d))}."
    fn = src.func('set_power_on_ruv')
    ds = find_nodes(fn, lambda n: isinstance(n, ast.Dict) and len(n.keys) == 1 and ast.unparse(n.keys[0]) == 'Expr.symbol(e)')
    d = unique(ds, 'set_power_on_ruv: subs dict for eps')
    out['power_on_ruv'] = f"Definition power_on_ruv_subst : expr := {P.e(as_expr(ri.ev(d.values[0]), d))}."
    return out


def translate_odes(src, P):
    out = {}
    fn = src.func('set_transit_compartments')
    cands = find_nodes(fn, lambda n: isinstance(n, ast.Assign) and ast.unparse(n.targets[0]) == 'rate'
                       and isinstance(n.value, ast.BinOp))
    node = unique(cands, 'set_transit_compartments: rate = n / mdt_symb')
    it = Interp({'n': ('sym', 'n'), 'mdt_symb': ('sym', 'MDT')})
    out['transit_rate'] = f"Definition transit_rate : expr := {P.e(as_expr(it.ev(node.value), node))}."
    fn = src.func('_update_numerators')
    cands = find_nodes(fn, lambda n: isinstance(n, ast.Assign) and ast.unparse(n.targets[0]) == 'new_rate')
    if len(cands) != 2:
        raise Refuse('_update_numerators: expected two new_rate assignments')
    nn = unique(find_nodes(fn, lambda n: isinstance(n, ast.Assign) and ast.unparse(n.targets[0]) == 'new_numerator'),
                '_update_numerators: new_numerator')
    if ast.unparse(nn.value) != 'Expr.integer(len(transits))':
        raise Refuse('_update_numerators: new_numerator is not the number of transits')
    rates = []
    for c in cands:
        it = Interp({'new_numerator': ('sym', 'n'), 'denom': ('sym', 'MDT'), 'ass_denom': ('sym', 'MDT')})
        rates.append(as_expr(it.ev(c.value), c))
    if rates[0] != rates[1]:
        raise Refuse('_update_numerators: the two rate updates differ')
    out['transit_rate_update'] = f"Definition transit_rate_update : expr := {P.e(rates[0])}."
    fn = src.func('_add_first_order_absorption')
    cands = find_nodes(fn, lambda n: isinstance(n, ast.Call) and dotted(n.func) == 'cb.add_flow' and len(n.args) == 3)
    node = unique(cands, '_add_first_order_absorption: add_flow')
    it = Interp({'mat_symb': ('sym', 'MAT')})
    out['fo_rate'] = f"Definition fo_rate : expr := {P.e(as_expr(it.ev(node.args[2]), node))}."
    fn = src.func('_add_zero_order_absorption')
    cands = find_nodes(fn, lambda n: isinstance(n, ast.Call) and dotted(n.func) == 'Infusion')
    node = unique(cands, '_add_zero_order_absorption: Infusion')
    kw = unique([k for k in node.keywords if k.arg in ('duration', 'rate')], 'Infusion duration keyword')
    if kw.arg != 'duration':
        raise Refuse('_add_zero_order_absorption: infusion given by rate, not duration')
    out['zo_duration'] = f"Definition zo_duration : expr := {P.e(as_expr(it.ev(kw.value), node))}."
    return out


def translate_allometry(src, P):
    fn = src.func('add_allometry')
    cands = find_nodes(fn, lambda n: isinstance(n, ast.Assign) and ast.unparse(n.targets[0]) == 'expr')
    node = unique(cands, 'add_allometry: expr')

    class AI(Interp):
        def ev(self, n):
            if dotted(n) == 'param.symbol':
                return ('sym', 'ALLO')
            return super().ev(n)
    it = AI({'p': ('sym', 'P'), 'variable': ('sym', 'variable'), 'reference': ('sym', 'reference')})
    return {'allometry_expr': f"Definition allometry_expr : expr := {P.e(as_expr(it.ev(node.value), node))}."}


def _nat_expr(n):
    if isinstance(n, ast.Name):
        return n.id
    if isinstance(n, ast.Constant) and isinstance(n.value, int) and not isinstance(n.value, bool) and n.value >= 0:
        return str(n.value)
    if isinstance(n, ast.BinOp) and isinstance(n.op, (ast.Add, ast.Sub)):
        return f"({_nat_expr(n.left)} {'+' if isinstance(n.op, ast.Add) else '-'} {_nat_expr(n.right)})"
    raise Refuse(f'name index expression at line {getattr(n, "lineno", "?")}')


def translate_iov_names(src):
    """add_iov: the nested helpers iov_name(i) / etai_name(i) return f'<prefix>{<index expression>}'."""
    fn = src.func('add_iov')
    out = []
    for helper, coq in (('iov_name', 'iov_name'), ('etai_name', 'etai_name')):
        hs = [n for n in ast.walk(fn) if isinstance(n, ast.FunctionDef) and n.name == helper]
        h = unique(hs, f'add_iov: nested function {helper}')
        if [a.arg for a in h.args.args] != ['i'] or len(h.body) != 1 or not isinstance(h.body[0], ast.Return):
            raise Refuse(f'add_iov.{helper}: shape')
        js = h.body[0].value
        if not (isinstance(js, ast.JoinedStr) and len(js.values) == 2 and isinstance(js.values[0], ast.Constant)
                and isinstance(js.values[1], ast.FormattedValue) and js.values[1].conversion == -1
                and js.values[1].format_spec is None):
            raise Refuse(f'add_iov.{helper}: not a prefix + index f-string')
        ex = _nat_expr(js.values[1].value)
        free = {n.id for n in ast.walk(js.values[1].value) if isinstance(n, ast.Name)}
        if not free <= {'first_iov_number', 'i'}:
            raise Refuse(f'add_iov.{helper}: index depends on {sorted(free)}')
        out.append(f"Definition {coq}_prefix : list N := {codes(js.values[0].value)}.")
        out.append(f"Definition {coq}_index (first_iov_number i : nat) : nat := ({ex})%nat.")
    # first_iov_number = int(create_symbol(model, 'IOV_', force_numbering=True).name.split('_')[-1])
    a = unique([n for n in ast.walk(fn) if isinstance(n, ast.Assign) and ast.unparse(n.targets[0]) == 'first_iov_name'],
               'add_iov: first_iov_name')
    if ast.unparse(a.value) != "create_symbol(model, 'IOV_', force_numbering=True).name":
        raise Refuse('add_iov: first_iov_name is not the next free IOV_<n> symbol')
    return '\n'.join(out)


HEADER = """(* GENERATED by harness/props/c09_templates.py from the pharmpy source — do not edit. *)
From Coq Require Import QArith NArith List Bool PArith.
From PV Require Import Base.Expr Base.Interp C09.Model.
Import ListNotations.
"""

RECORD = """
Definition gen_templates : templates := {|
  t_effect := effect_template; t_effect_rhs := effect_statement_rhs;
  t_cat_start := cat_enumerate_start; t_cat_first_value := cat_first_value; t_cat_first_cond := cat_first_cond;
  t_cat_nan_value := cat_nan_value; t_cat_nan_cond := cat_nan_cond; t_cat_other_cond := cat_other_cond;
  t_cat_other_value := cat_other_value;
  t_iiv := iiv_template; t_relogit_phi := relogit_phi;
  t_add_error := add_error; t_prop_error := prop_error; t_prop_guard := prop_guard; t_comb_error := comb_error;
  t_iiv_on_ruv := iiv_on_ruv_subst; t_power_on_ruv := power_on_ruv_subst;
  t_transit_rate := transit_rate; t_transit_rate_update := transit_rate_update; t_fo_rate := fo_rate;
  t_zo_duration := zo_duration; t_allometry := allometry_expr;
  t_effect_dispatch := effect_dispatch; t_effect_ops := effect_ops; t_iiv_dispatch := iiv_dispatch; t_iiv_ops := iiv_ops
|}.
"""


def translate(modeling_dir, overrides=None):
    """Returns (coq text of Templates.v, [(function, sha)]).  `overrides` maps a file name to another path (used by
    the mutation tests)."""
    overrides = overrides or {}
    d = Path(modeling_dir)

    def S(name):
        return Source(overrides.get(name, d / name))
    P = Printer(SYMTAB)
    parts = []
    used = []
    ce = S('covariate_effect.py')
    r = translate_covariate_effect(ce, P)
    parts += [r['effect_template'], r['effect_statement_rhs'], r['categorical'], r['effect_dispatch'], r['effect_ops']]
    pv = S('parameter_variability.py')
    r = translate_iiv(pv, P)
    parts += [r['iiv_template'], r['relogit_phi'], r['iiv_dispatch'], r['iiv_ops']]
    er = S('error.py')
    r = translate_error(er, P)
    parts += [r['add_error'], r['prop_error'], r['prop_guard'], r['comb_error'], r['iiv_on_ruv'], r['power_on_ruv']]
    od = S('odes.py')
    r = translate_odes(od, P)
    parts += [r['transit_rate'], r['transit_rate_update'], r['fo_rate'], r['zo_duration']]
    al = S('allometry.py')
    r = translate_allometry(al, P)
    parts += [r['allometry_expr']]
    parts += [translate_iov_names(pv)]
    for s in (ce, pv, er, od, al):
        used += s.used
    return HEADER + '\n' + '\n\n'.join(parts) + '\n' + RECORD, used


if __name__ == '__main__':
    import sys
    text, used = translate(sys.argv[1] if len(sys.argv) > 1 else '/repo/src/pharmpy/modeling')
    print(text)
    for u in used:
        print('(*', u, '*)')
