"""Entry point:  python -m harness.check <Cxx> [--tier quick|thorough] [--replay file]"""
import argparse
import importlib
import json
import os
import sys
import traceback
import warnings

warnings.filterwarnings('ignore')

from harness.lib.core import Ctx


def main():
    ap = argparse.ArgumentParser()
    ap.add_argument('prop')
    ap.add_argument('--tier', default=os.environ.get('VERIF_TIER', 'quick'), choices=['quick', 'thorough'])
    ap.add_argument('--replay', default=None)
    args = ap.parse_args()
    seed = int(os.environ.get('VERIF_SEED', '0') or 0)
    prop = args.prop.upper()
    ctx = Ctx(prop, args.tier, seed)
    mod = importlib.import_module(f'harness.props.{prop.lower()}')
    if args.replay:
        rep = json.load(open(args.replay))
        rc = mod.replay(ctx, rep)
        sys.exit(rc)
    try:
        mod.run(ctx)
    except Exception as e:  # the machinery itself failed: fail closed
        traceback.print_exc()
        ctx.broken.append(f'check machinery error: {type(e).__name__}: {e}')
    # A broken obligation / correspondence without a concrete failing input is still a violation.
    if ctx.broken and not any(not v['no_input'] for v in ctx.violations):
        ctx.violation('no longer shown to hold: ' + ' | '.join(ctx.broken)[:1500],
                      {'broken': ctx.broken, 'note': 'no failing input found by the search'}, no_input=True)
    sys.exit(ctx.finish(level=getattr(mod, 'LEVEL', 'proof')))


if __name__ == '__main__':
    main()
